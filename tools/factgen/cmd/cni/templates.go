package main

// Reference shapes.  Every template is ordinary Go (parsed, never type-checked), normalised by the same pipeline as
// the source (norm.go) and unified with it; string literals "§NAME§" are holes that bind the source's literal.
// Error texts, log statements, names of locals / parameters, Sprintf-vs-concatenation, guard clauses, switch-vs-if,
// slice pre-allocation and one level of private helpers do not matter; operators, constants, operand order, the
// order of side-effecting statements and which variable flows where do.

// a variant: template source + the values of the facts it stands for
type variant struct {
	name  string
	src   string
	facts map[string]string
}

const tmplHeader = "package t\n\n"

// ---- pkg/api/cniutil/cni.go

const tBuildCNIArgs = tmplHeader + `
func BuildCNIArgs(args map[string]string) string {
	var entries []string
	for k, v := range args {
		entries = append(entries, k+"§KV§"+v)
	}
	return strings.Join(entries, "§SEP§")
}`

const tParseCNIArgs = tmplHeader + `
func ParseCNIArgs(args string) (map[string]string, error) {
	kvMap := make(map[string]string)
	kvs := strings.Split(args, "§PSEP§")
	if len(kvs) == 0 {
		return kvMap, fmt.Errorf("invalid")
	}
	for _, kv := range kvs {
		part := strings.SplitN(kv, "§PKV§", 2)
		if len(part) != 2 {
			continue
		}
		kvMap[strings.TrimSpace(part[0])] = strings.TrimSpace(part[1])
	}
	return kvMap, nil
}`

// %ROLLBACK% is replaced by idx, idx-1, idx+1, …
const tCmdAdd = tmplHeader + `
func CmdAdd(cmdArgs *skel.CmdArgs, networkInfos []*NetworkInfo) (types.Result, error) {
	if len(networkInfos) == 0 {
		return nil, fmt.Errorf("none")
	}
	if err := saveNetworkInfo(cmdArgs.ContainerID, networkInfos); err != nil {
		return nil, fmt.Errorf("save")
	}
	var (
		err    error
		result types.Result
	)
	for idx, networkInfo := range networkInfos {
		cmdArgs.Args = strings.TrimRight(cmdArgs.Args+"§ACCSEP§"+BuildCNIArgs(networkInfo.Args), "§ACCCUT§")
		if result != nil {
			networkInfo.Conf["prevResult"] = result
		}
		result, err = DelegateAdd(networkInfo.Conf, cmdArgs, networkInfo.IfName)
		if err != nil {
			CmdDel(cmdArgs, %ROLLBACK%)
			return nil, fmt.Errorf("fail")
		}
	}
	if err != nil {
		return nil, err
	}
	return result, nil
}`

const tReverse = `
func reverse(infos []*NetworkInfo) {
	for i, j := 0, len(infos)-1; i < j; i, j = i+1, j-1 {
		infos[i], infos[j] = infos[j], infos[i]
	}
}`

// %LOOP% / %REVERSE% / %SAVED% select the variant
const tCmdDel = tmplHeader + `
func CmdDel(cmdArgs *skel.CmdArgs, lastIdx int) error {
	networkInfos, err := consumeNetworkInfo(cmdArgs.ContainerID)
	if err != nil {
		if os.IsNotExist(err) {
			return nil
		}
		return fmt.Errorf("consume")
	}
	if lastIdx == -1 {
		lastIdx = len(networkInfos) - 1
	}
	var errorSet []string
	var fails []*NetworkInfo
	%LOOP% {
		networkInfo := networkInfos[idx]
		cmdArgs.Args = strings.TrimRight(cmdArgs.Args+"§ACCSEP§"+BuildCNIArgs(networkInfo.Args), "§ACCCUT§")
		err := DelegateDel(networkInfo.Conf, cmdArgs, networkInfo.IfName)
		if err != nil {
			errorSet = append(errorSet, err.Error())
			fails = append(fails, networkInfo)
		}
	}
	if len(errorSet) > 0 {
		%REVERSE%
		saveNetworkInfo(cmdArgs.ContainerID, %SAVED%)
		return fmt.Errorf("failed")
	}
	return nil
}` + tReverse

const tConsume = tmplHeader + `
func consumeNetworkInfo(containerID string) ([]*NetworkInfo, error) {
	var infos []*NetworkInfo
	path := filepath.Join(stateDir, containerID)
	defer os.Remove(path)
	data, err := ioutil.ReadFile(path)
	if err != nil {
		return infos, err
	}
	if err := json.Unmarshal(data, &infos); err != nil {
		return infos, err
	}
	return infos, nil
}`

// ---- pkg/galaxy/server.go

// %HANDOUT% is the configured branch
const tGetNetworkConf = tmplHeader + `
func (g *Galaxy) getNetworkConf(networkName string) (map[string]interface{}, error) {
	if netConf, ok := g.netConf[networkName]; ok {
		%HANDOUT%
	}
	data, err := cniutil.GetNetworkConfig(networkName, g.NetworkConfDir)
	if err != nil {
		return nil, fmt.Errorf("load")
	}
	var m map[string]interface{}
	if err := json.Unmarshal(data, &m); err != nil {
		return nil, fmt.Errorf("unmarshal")
	}
	if m["kubeconfig"] != "" {
		delete(m, "kubeconfig")
	}
	return m, nil
}`

const handoutCopy = `copied := make(map[string]interface{}, len(netConf))
		for k, v := range netConf {
			copied[k] = v
		}
		return copied, nil`

const handoutShared = `return netConf, nil`

const tResolveNetworks = tmplHeader + `
func (g *Galaxy) resolveNetworks(req *galaxyapi.PodRequest, pod *corev1.Pod) ([]*cniutil.NetworkInfo, error) {
	var networkInfos []*cniutil.NetworkInfo
	if pod.Annotations == nil || pod.Annotations[constant.MultusCNIAnnotation] == "" {
		if utils.WantENIIP(&pod.Spec) && g.ENIIPNetwork != "" {
			netConf, err := g.getNetworkConf(g.ENIIPNetwork)
			if err != nil {
				return nil, err
			}
			networkInfos = append(networkInfos, cniutil.NewNetworkInfo(g.ENIIPNetwork, netConf, req.IfName))
		} else {
			for i, netName := range g.DefaultNetworks {
				netConf, err := g.getNetworkConf(netName)
				if err != nil {
					return nil, err
				}
				networkInfos = append(networkInfos, cniutil.NewNetworkInfo(netName, netConf,
					setNetInterface("", i, req.IfName)))
			}
		}
	} else {
		v := pod.Annotations[constant.MultusCNIAnnotation]
		networks, err := k8s.ParsePodNetworkAnnotation(v)
		if err != nil {
			return nil, err
		}
		for idx, network := range networks {
			netConf, err := g.getNetworkConf(network.Name)
			if err != nil {
				return nil, err
			}
			networkInfos = append(networkInfos, cniutil.NewNetworkInfo(network.Name, netConf,
				setNetInterface(network.InterfaceRequest, idx, req.CmdArgs.IfName)))
		}
	}
	extendedCNIArgs, err := parseExtendedCNIArgs(pod)
	if err != nil {
		return nil, err
	}
	for i := range networkInfos {
		for k, v := range extendedCNIArgs {
			networkInfos[i].Args[k] = string(v)
		}
	}
	return networkInfos, nil
}`

// ---- pkg/api/k8s/k8s.go

// %NULLCHECK% is the rejection of null elements
const tParseAnnotation = tmplHeader + `
func ParsePodNetworkAnnotation(podNetworks string) ([]*NetworkSelectionElement, error) {
	var networks []*NetworkSelectionElement
	if podNetworks == "" {
		return nil, fmt.Errorf("empty")
	}
	if strings.IndexAny(podNetworks, "§JSONCHARS§") >= 0 {
		if err := json.Unmarshal([]byte(podNetworks), &networks); err != nil {
			return nil, fmt.Errorf("json")
		}
		%NULLCHECK%
	} else {
		for _, item := range strings.Split(podNetworks, "§COMMA§") {
			item = strings.TrimSpace(item)
			_, networkName, netIfName, err := parsePodNetworkObjectName(item)
			if err != nil {
				return nil, fmt.Errorf("item")
			}
			networks = append(networks, &NetworkSelectionElement{
				Name:             networkName,
				InterfaceRequest: netIfName,
			})
		}
	}
	return networks, nil
}`

const nullCheck = `for i := range networks {
			if networks[i] == nil {
				return nil, fmt.Errorf("null")
			}
		}`

const tParseObjectName = tmplHeader + `
func parsePodNetworkObjectName(podNetwork string) (string, string, string, error) {
	var netNsName string
	var netIfName string
	var networkName string
	slashItems := strings.Split(podNetwork, "§SLASH§")
	if len(slashItems) == 2 {
		netNsName = strings.TrimSpace(slashItems[0])
		networkName = slashItems[1]
	} else if len(slashItems) == 1 {
		networkName = slashItems[0]
	} else {
		return "", "", "", fmt.Errorf("slash")
	}
	atItems := strings.Split(networkName, "§AT§")
	networkName = strings.TrimSpace(atItems[0])
	if len(atItems) == 2 {
		netIfName = strings.TrimSpace(atItems[1])
	} else if len(atItems) != 1 {
		return "", "", "", fmt.Errorf("at")
	}
	allItems := []string{netNsName, networkName, netIfName}
	for i := range allItems {
		matched, _ := regexp.MatchString("§REGEX§", allItems[i])
		if !matched && len([]rune(allItems[i])) > 0 {
			return "", "", "", fmt.Errorf("label")
		}
	}
	return netNsName, networkName, netIfName, nil
}`
