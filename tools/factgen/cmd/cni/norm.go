// Normaliser: Go function body -> canonical tree, so that shapes are matched semantically and not textually
// (see /verif/harmless/NORMALISE.md).  Applied identically to the source under translation and to the reference
// templates the translator carries; the two canonical trees are then unified (string literals `"§NAME§"` of a
// template are holes).
//
//  1. locals, parameters, results and loop variables are alpha-renamed by order of definition;
//  2. single-assignment locals with a side-effect-free right-hand side are inlined; unused definitions become
//     expression statements;
//  3. conditions: `!=` is `!(==)`, `>`/`>=` are swapped `<`/`<=`, negations are pushed through && / || and
//     comparisons, && / || are flattened and sorted, operands of == sorted, `if a { if b {…} }` is `if a && b`;
//  4. guard clauses: when one branch of an `if` always leaves (return / continue / break / panic) the rest of the
//     block becomes the other branch; a negated condition with both branches swaps them; trailing `continue` in a
//     loop body and trailing bare `return` disappear; `switch` becomes an if / else-if chain; an `if` / `switch`
//     init statement is hoisted in front;
//  5. `for i := range xs { v := xs[i]; … }` is `for i, v := range xs { … }`; unused range variables are `_`;
//  6. comments, glog / klog / log / fmt.Print* statements are dropped, every error constructor
//     (fmt.Errorf, errors.New) is `ERR` whatever its text;
//  7. fmt.Sprintf with only %s / %d / %v verbs, string concatenation and strconv.Itoa are one `concat` form;
//     `make([]T, 0[, n])`, `[]T{}` and `var s []T` are one declaration;
//  8. calls to private functions of the same file are followed one level: expression helpers (`return e`),
//     statement helpers without result, and straight-line helpers with one final return are inlined;
//  9. `_, err := f(); return err` and `if …; err != nil { return err }; return nil` coincide.
package main

import (
	"fmt"
	"go/ast"
	"go/token"
	"sort"
	"strconv"
	"strings"

	"factgen/fg"
)

// N is a node of the canonical tree.
type N struct {
	Op string
	K  []*N
}

func leaf(op string) *N        { return &N{Op: op} }
func nd(op string, k ...*N) *N { return &N{Op: op, K: k} }

func (n *N) String() string {
	if n == nil {
		return "<nil>"
	}
	if len(n.K) == 0 {
		if strings.ContainsAny(n.Op, " ()") {
			return strconv.Quote(n.Op)
		}
		return n.Op
	}
	var b strings.Builder
	b.WriteString("(" + n.Op)
	for _, k := range n.K {
		b.WriteString(" " + k.String())
	}
	b.WriteString(")")
	return b.String()
}

func (n *N) clone() *N {
	if n == nil {
		return nil
	}
	c := &N{Op: n.Op}
	for _, k := range n.K {
		c.K = append(c.K, k.clone())
	}
	return c
}

func (n *N) isID() bool  { return len(n.K) == 0 && strings.HasPrefix(n.Op, "id:") }
func (n *N) isStr() bool { return len(n.K) == 0 && strings.HasPrefix(n.Op, "str:") }
func (n *N) id() string  { return strings.TrimPrefix(n.Op, "id:") }
func (n *N) str() string { return strings.TrimPrefix(n.Op, "str:") }

func walk(n *N, f func(*N)) {
	if n == nil {
		return
	}
	f(n)
	for _, k := range n.K {
		walk(k, f)
	}
}

func contains(n *N, pred func(*N) bool) bool {
	found := false
	walk(n, func(x *N) {
		if pred(x) {
			found = true
		}
	})
	return found
}

// Norm normalises functions of one parsed file.
type Norm struct {
	p       *fg.Parsed
	helpers map[string]*ast.FuncDecl // private plain functions of the file
	fresh   int
}

func NewNorm(p *fg.Parsed) *Norm {
	nm := &Norm{p: p, helpers: map[string]*ast.FuncDecl{}}
	for _, d := range p.File.Decls {
		if fd, ok := d.(*ast.FuncDecl); ok && fd.Recv == nil && fd.Body != nil && !ast.IsExported(fd.Name.Name) {
			nm.helpers[fd.Name.Name] = fd
		}
	}
	return nm
}

// Func returns the canonical tree of a function: (func (params…) (results…) (block …)).
func (nm *Norm) Func(fd *ast.FuncDecl) *N {
	body := nm.funcBody(fd, true)
	sig := nm.signature(fd)
	t := nd("func", sig[0], sig[1], sig[2], body)
	rename(t) // makes every variable's name unique, so that the passes below can work by name
	t.K[3] = dropUnusedDefs(inlineLocals(inlineSingleUse(t.K[3])))
	rename(t) // canonical numbering of what is left
	canonConds(t)
	return t
}

func (nm *Norm) signature(fd *ast.FuncDecl) [3]*N {
	recv, params, results := nd("recv"), nd("params"), nd("results")
	if fd.Recv != nil {
		for _, f := range fd.Recv.List {
			for _, n := range f.Names {
				recv.K = append(recv.K, nd("param", leaf("id:"+n.Name), leaf("type:"+nm.p.Src(f.Type))))
			}
		}
	}
	for _, f := range fd.Type.Params.List {
		for _, n := range f.Names {
			params.K = append(params.K, nd("param", leaf("id:"+n.Name), leaf("type:"+nm.p.Src(f.Type))))
		}
	}
	if fd.Type.Results != nil {
		for _, f := range fd.Type.Results.List {
			if len(f.Names) == 0 {
				results.K = append(results.K, nd("param", leaf("_"), leaf("type:"+nm.p.Src(f.Type))))
			}
			for _, n := range f.Names {
				results.K = append(results.K, nd("param", leaf("id:"+n.Name), leaf("type:"+nm.p.Src(f.Type))))
			}
		}
	}
	return [3]*N{recv, params, results}
}

func (nm *Norm) funcBody(fd *ast.FuncDecl, follow bool) *N {
	tail := "func"
	if fd.Type.Results == nil || len(fd.Type.Results.List) == 0 {
		tail = "funcvoid"
	}
	c := &conv{nm: nm, follow: follow, types: map[string]string{}}
	for _, f := range fd.Type.Params.List {
		for _, n := range f.Names {
			c.types[n.Name] = nm.p.Src(f.Type)
		}
	}
	return nd("block", c.block(fd.Body.List, tail)...)
}

// ---------------------------------------------------------------- AST -> tree

type conv struct {
	nm     *Norm
	follow bool              // inline private helpers (one level)
	types  map[string]string // declared types of parameters and `var` locals (as written)
}

// ptrElems: xs is a variable declared as a slice of pointers (writes through xs[i] and through a copy of xs[i] coincide)
func (c *conv) ptrElems(xs *N) bool {
	return xs.isID() && strings.HasPrefix(c.types[xs.id()], "[]*")
}

func rootIdent(e ast.Expr) string {
	for {
		switch x := e.(type) {
		case *ast.Ident:
			return x.Name
		case *ast.SelectorExpr:
			e = x.X
		case *ast.CallExpr:
			e = x.Fun
		default:
			return ""
		}
	}
}

func (c *conv) isLogCall(e ast.Expr) bool {
	call, ok := e.(*ast.CallExpr)
	if !ok {
		return false
	}
	switch rootIdent(call.Fun) {
	case "glog", "klog", "log":
		return true
	case "fmt":
		if s, ok := call.Fun.(*ast.SelectorExpr); ok {
			return strings.HasPrefix(s.Sel.Name, "Print")
		}
	}
	return false
}

func (c *conv) typ(e ast.Expr) *N { return leaf("type:" + c.nm.p.Src(e)) }

func (c *conv) exprs(es []ast.Expr) []*N {
	var out []*N
	for _, e := range es {
		out = append(out, c.expr(e))
	}
	return out
}

func unquote(l *ast.BasicLit) string {
	s, err := strconv.Unquote(l.Value)
	if err != nil {
		return l.Value
	}
	return s
}

// concat builds the canonical string-building form.
func concat(parts []*N) *N {
	var flat []*N
	for _, p := range parts {
		if p.Op == "concat" {
			flat = append(flat, p.K...)
		} else {
			flat = append(flat, p)
		}
	}
	var out []*N
	for _, p := range flat {
		if p.isStr() && p.str() == "" {
			continue
		}
		if p.isStr() && len(out) > 0 && out[len(out)-1].isStr() && !isHole(out[len(out)-1]) && !isHole(p) {
			out[len(out)-1] = leaf("str:" + out[len(out)-1].str() + p.str())
			continue
		}
		out = append(out, p)
	}
	switch len(out) {
	case 0:
		return leaf("str:")
	case 1:
		return out[0]
	}
	return nd("concat", out...)
}

func isHole(n *N) bool { return n.isStr() && strings.HasPrefix(n.str(), "§") && strings.HasSuffix(n.str(), "§") }

// sprintf: format with only %s %d %v verbs -> parts; ok=false otherwise.
func sprintfParts(format string, args []*N) ([]*N, bool) {
	var parts []*N
	ai := 0
	lit := ""
	for i := 0; i < len(format); i++ {
		if format[i] != '%' {
			lit += string(format[i])
			continue
		}
		if i+1 >= len(format) {
			return nil, false
		}
		i++
		switch format[i] {
		case '%':
			lit += "%"
		case 's', 'd', 'v':
			if ai >= len(args) {
				return nil, false
			}
			if lit != "" {
				parts = append(parts, leaf("str:"+lit))
				lit = ""
			}
			a := args[ai]
			ai++
			switch format[i] {
			case 'd':
				a = itoa(a)
			case 'v':
				a = nd("fmtv", a)
			}
			parts = append(parts, a)
		default:
			return nil, false
		}
	}
	if ai != len(args) {
		return nil, false
	}
	if lit != "" {
		parts = append(parts, leaf("str:"+lit))
	}
	return parts, true
}

func itoa(a *N) *N {
	// integer conversions inside do not change the text
	for a.Op == "call" && len(a.K) == 2 && a.K[0].isID() {
		switch a.K[0].id() {
		case "int", "int32", "int64", "uint", "uint32", "uint64":
			a = a.K[1]
			continue
		}
		break
	}
	return nd("itoa", a)
}

// lenCmp: a length is never negative: 0 < len(x), 1 <= len(x) are len(x) != 0; len(x) <= 0, len(x) < 1 are len(x) == 0.
func lenCmp(n *N) *N {
	isLen := func(x *N) bool { return x.Op == "call" && len(x.K) == 2 && x.K[0].Op == "id:len" }
	a, b := n.K[0], n.K[1]
	switch {
	case n.Op == "<" && a.Op == "num:0" && isLen(b), n.Op == "<=" && a.Op == "num:1" && isLen(b):
		return nd("!", nd("==", b, leaf("num:0")))
	case n.Op == "<=" && isLen(a) && b.Op == "num:0", n.Op == "<" && isLen(a) && b.Op == "num:1":
		return nd("==", a, leaf("num:0"))
	}
	return n
}

func (c *conv) expr(e ast.Expr) *N {
	switch x := e.(type) {
	case nil:
		return leaf("nil")
	case *ast.Ident:
		return leaf("id:" + x.Name)
	case *ast.BasicLit:
		switch x.Kind {
		case token.STRING:
			return leaf("str:" + unquote(x))
		case token.CHAR:
			return leaf("char:" + unquote(x))
		default:
			return leaf("num:" + x.Value)
		}
	case *ast.ParenExpr:
		return c.expr(x.X)
	case *ast.SelectorExpr:
		return nd("sel", c.expr(x.X), leaf("f:"+x.Sel.Name))
	case *ast.StarExpr:
		return nd("deref", c.expr(x.X))
	case *ast.UnaryExpr:
		if x.Op == token.NOT {
			return nd("!", c.expr(x.X))
		}
		return nd("un:"+x.Op.String(), c.expr(x.X))
	case *ast.BinaryExpr:
		l, r := c.expr(x.X), c.expr(x.Y)
		switch x.Op {
		case token.NEQ:
			return nd("!", nd("==", l, r))
		case token.GTR:
			return lenCmp(nd("<", r, l))
		case token.GEQ:
			return lenCmp(nd("<=", r, l))
		case token.LSS:
			return lenCmp(nd("<", l, r))
		case token.LEQ:
			return lenCmp(nd("<=", l, r))
		case token.LAND:
			return nd("and", l, r)
		case token.LOR:
			return nd("or", l, r)
		case token.ADD:
			stringy := func(n *N) bool { return n.isStr() || n.Op == "concat" || n.Op == "itoa" || n.Op == "fmtv" }
			if stringy(l) || stringy(r) {
				return concat([]*N{l, r})
			}
		}
		return nd(x.Op.String(), l, r)
	case *ast.IndexExpr:
		return nd("index", c.expr(x.X), c.expr(x.Index))
	case *ast.SliceExpr:
		return nd("slice", c.expr(x.X), c.expr(x.Low), c.expr(x.High), c.expr(x.Max))
	case *ast.TypeAssertExpr:
		if x.Type == nil {
			return nd("typeswitchguard", c.expr(x.X))
		}
		return nd("assert", c.expr(x.X), c.typ(x.Type))
	case *ast.KeyValueExpr:
		return nd("kv", c.expr(x.Key), c.expr(x.Value))
	case *ast.CompositeLit:
		if _, ok := x.Type.(*ast.MapType); ok && len(x.Elts) == 0 {
			return nd("call", leaf("id:make"), c.typ(x.Type))
		}
		n := nd("lit", c.typ(x.Type))
		n.K = append(n.K, c.exprs(x.Elts)...)
		return n
	case *ast.FuncLit:
		params := nd("params")
		for _, f := range x.Type.Params.List {
			for _, nme := range f.Names {
				params.K = append(params.K, nd("param", leaf("id:"+nme.Name), c.typ(f.Type)))
			}
		}
		tail := "func"
		if x.Type.Results == nil {
			tail = "funcvoid"
		}
		return nd("funclit", params, nd("block", c.block(x.Body.List, tail)...))
	case *ast.CallExpr:
		return c.call(x)
	case *ast.ArrayType, *ast.MapType, *ast.ChanType, *ast.FuncType, *ast.InterfaceType, *ast.StructType:
		return c.typ(x)
	}
	return leaf("raw:" + c.nm.p.Src(e))
}

func (c *conv) call(x *ast.CallExpr) *N {
	fun := c.nm.p.Src(x.Fun)
	args := c.exprs(x.Args)
	switch fun {
	case "fmt.Errorf", "errors.New":
		return leaf("ERR")
	case "fmt.Sprintf":
		if len(x.Args) >= 1 {
			if bl, ok := x.Args[0].(*ast.BasicLit); ok && bl.Kind == token.STRING {
				if parts, ok := sprintfParts(unquote(bl), args[1:]); ok {
					return concat(parts)
				}
			}
		}
	case "strconv.Itoa":
		if len(args) == 1 {
			return itoa(args[0])
		}
	case "make":
		// make([]T, 0[, n]) -> the empty slice
		if len(x.Args) >= 2 {
			if at, ok := x.Args[0].(*ast.ArrayType); ok && at.Len == nil {
				if bl, ok := x.Args[1].(*ast.BasicLit); ok && bl.Value == "0" {
					return nd("emptyslice", c.typ(x.Args[0]))
				}
			}
		}
		// the capacity hint of a map is not observable
		if len(x.Args) == 2 {
			if _, ok := x.Args[0].(*ast.MapType); ok {
				return nd("call", leaf("id:make"), c.typ(x.Args[0]))
			}
		}
		if len(x.Args) >= 1 {
			n := nd("call", leaf("id:make"), c.typ(x.Args[0]))
			n.K = append(n.K, args[1:]...)
			return n
		}
	}
	// expression helper: private function whose body is `return e`
	if id, ok := x.Fun.(*ast.Ident); ok && c.follow {
		if h, ok := c.nm.helpers[id.Name]; ok {
			if e, ok := c.nm.exprHelper(h, args); ok {
				return e
			}
		}
	}
	n := nd("call", c.expr(x.Fun))
	n.K = append(n.K, args...)
	if x.Ellipsis.IsValid() {
		n.Op = "call..."
	}
	return n
}

func simpleArg(a *N) bool {
	return !contains(a, func(x *N) bool { return strings.HasPrefix(x.Op, "call") || x.Op == "funclit" })
}

func helperParams(h *ast.FuncDecl) ([]string, bool) {
	var ps []string
	for _, f := range h.Type.Params.List {
		if _, variadic := f.Type.(*ast.Ellipsis); variadic {
			return nil, false
		}
		for _, n := range f.Names {
			ps = append(ps, n.Name)
		}
	}
	return ps, true
}

// helperBody: the helper's canonical body with its parameters replaced by the arguments and its locals made fresh.
func (nm *Norm) helperBody(h *ast.FuncDecl, args []*N) (*N, bool) {
	ps, ok := helperParams(h)
	if !ok || len(ps) != len(args) {
		return nil, false
	}
	for _, a := range args {
		if !simpleArg(a) {
			return nil, false
		}
	}
	body := nm.funcBody(h, false)
	// parameters must not be assigned in the helper (they would be copies)
	defs := definedNames(body)
	assigned := map[string]bool{} // the parameter variable itself is written (writes through it are fine)
	walk(body, func(x *N) {
		switch x.Op {
		case "assign", "opassign":
			for _, l := range x.K[0].K {
				if l.isID() {
					assigned[l.id()] = true
				}
			}
		case "incdec":
			if x.K[1].isID() {
				assigned[x.K[1].id()] = true
			}
		case "un:&":
			if x.K[0].isID() {
				assigned[x.K[0].id()] = true
			}
		}
	})
	sub := map[string]*N{}
	for i, p := range ps {
		if assigned[p] || defs[p] {
			return nil, false
		}
		sub[p] = args[i]
	}
	nm.fresh++
	pre := fmt.Sprintf("h%d$", nm.fresh)
	var rew func(n *N) *N
	rew = func(n *N) *N {
		if n.isID() {
			if a, ok := sub[n.id()]; ok {
				return a.clone()
			}
			if defs[n.id()] {
				return leaf("id:" + pre + n.id())
			}
			return n
		}
		out := &N{Op: n.Op}
		for _, k := range n.K {
			out.K = append(out.K, rew(k))
		}
		return out
	}
	return rew(body), true
}

func (nm *Norm) exprHelper(h *ast.FuncDecl, args []*N) (*N, bool) {
	if h.Type.Results == nil || len(h.Type.Results.List) != 1 || len(h.Body.List) != 1 {
		return nil, false
	}
	if _, ok := h.Body.List[0].(*ast.ReturnStmt); !ok {
		return nil, false
	}
	b, ok := nm.helperBody(h, args)
	if !ok || len(b.K) != 1 || b.K[0].Op != "return" || len(b.K[0].K) != 1 {
		return nil, false
	}
	return b.K[0].K[0], true
}

func hasReturn(n *N) bool {
	return contains(n, func(x *N) bool { return x.Op == "return" })
}

func definedNames(n *N) map[string]bool {
	out := map[string]bool{}
	walk(n, func(x *N) {
		switch x.Op {
		case "define", "var":
			for _, l := range x.K[0].K {
				if l.isID() {
					out[l.id()] = true
				}
			}
		case "range":
			for _, l := range x.K[:2] {
				if l.isID() {
					out[l.id()] = true
				}
			}
		case "param":
			if x.K[0].isID() {
				out[x.K[0].id()] = true
			}
		}
	})
	return out
}

func assignedNames(n *N) map[string]bool {
	out := map[string]bool{}
	walk(n, func(x *N) {
		switch x.Op {
		case "assign", "opassign":
			for _, l := range x.K[0].K {
				if r := baseID(l); r != "" {
					out[r] = true
				}
			}
		case "incdec":
			if r := baseID(x.K[1]); r != "" {
				out[r] = true
			}
		case "un:&":
			if r := baseID(x.K[0]); r != "" {
				out[r] = true
			}
		}
	})
	return out
}

// baseID: the variable an lvalue belongs to (x, x.f, x[i] -> x); a pointer dereference hides it.
func baseID(n *N) string {
	for {
		switch {
		case n.isID():
			return n.id()
		case n.Op == "sel" || n.Op == "index" || n.Op == "slice":
			n = n.K[0]
		default:
			return ""
		}
	}
}

// ---- statements

func terminates(list []*N) bool {
	if len(list) == 0 {
		return false
	}
	l := list[len(list)-1]
	switch l.Op {
	case "return", "continue", "break", "goto", "panic":
		return true
	case "if":
		return len(l.K) == 3 && terminates(l.K[1].K) && terminates(l.K[2].K)
	}
	return false
}

func not(n *N) *N {
	switch n.Op {
	case "!":
		return n.K[0]
	case "and":
		return nd("or", not(n.K[0]), not(n.K[1]))
	case "or":
		return nd("and", not(n.K[0]), not(n.K[1]))
	case "<":
		return lenCmp(nd("<=", n.K[1], n.K[0]))
	case "<=":
		return lenCmp(nd("<", n.K[1], n.K[0]))
	case "id:true":
		return leaf("id:false")
	case "id:false":
		return leaf("id:true")
	}
	return nd("!", n)
}

// pushNot removes double negations and pushes negations through and / or / order comparisons.
func pushNot(n *N) *N {
	switch n.Op {
	case "!":
		in := pushNot(n.K[0])
		return not(in)
	case "and", "or":
		return nd(n.Op, pushNot(n.K[0]), pushNot(n.K[1]))
	}
	return n
}

func stripTail(list []*N, tail string) []*N {
	for len(list) > 0 {
		l := list[len(list)-1]
		if (tail == "loop" && l.Op == "continue" && len(l.K) == 0) || (tail == "funcvoid" && l.Op == "return" && len(l.K) == 0) {
			list = list[:len(list)-1]
			continue
		}
		break
	}
	return list
}

// mkIf builds the canonical if from a condition and two statement lists (already canonical themselves).
func mkIf(cond *N, then, els []*N, tail string) []*N {
	cond = pushNot(cond)
	if tail == "loop" || tail == "funcvoid" {
		then, els = stripTail(then, tail), stripTail(els, tail)
	}
	if len(then) == 0 && len(els) == 0 {
		if simpleArg(cond) {
			return nil
		}
		return []*N{nd("expr", cond)}
	}
	if len(then) == 0 {
		cond, then, els = pushNot(nd("!", cond)), els, nil
	}
	if cond.Op == "!" && len(els) > 0 {
		cond, then, els = cond.K[0], els, then
	}
	// if a { if b { X } }  ==  if a && b { X }
	if len(els) == 0 && len(then) == 1 && then[0].Op == "if" && len(then[0].K) == 2 {
		return []*N{nd("if", nd("and", cond, then[0].K[0]), then[0].K[1])}
	}
	if len(els) == 0 {
		return []*N{nd("if", cond, nd("block", then...))}
	}
	// if err == nil { return …, nil } else { return …, err }  ==  return …, err
	if cond.Op == "==" && len(then) == 1 && len(els) == 1 && then[0].Op == "return" && els[0].Op == "return" &&
		len(then[0].K) == len(els[0].K) && len(then[0].K) > 0 {
		var x *N
		switch {
		case cond.K[1].Op == "id:nil" && cond.K[0].isID():
			x = cond.K[0]
		case cond.K[0].Op == "id:nil" && cond.K[1].isID():
			x = cond.K[1]
		}
		if x != nil {
			n := len(then[0].K)
			same := then[0].K[n-1].Op == "id:nil" && els[0].K[n-1].String() == x.String()
			for i := 0; i < n-1; i++ {
				if then[0].K[i].String() != els[0].K[i].String() {
					same = false
				}
			}
			if same {
				return []*N{els[0]}
			}
		}
	}
	return []*N{nd("if", cond, nd("block", then...), nd("block", els...))}
}

func (c *conv) block(list []ast.Stmt, tail string) []*N {
	var out []*N
	for _, s := range list {
		switch x := s.(type) {
		case *ast.IfStmt:
			if x.Init != nil {
				out = append(out, c.hoisted(c.stmt(x.Init, "none"))...)
			}
			cond, pre := c.hoistCalls(c.expr(x.Cond))
			out = append(out, pre...)
			then := c.block(x.Body.List, "none")
			var els []*N
			if x.Else != nil {
				if b, ok := x.Else.(*ast.BlockStmt); ok {
					els = c.block(b.List, "none")
				} else {
					els = c.block([]ast.Stmt{x.Else}, "none")
				}
			}
			out = append(out, mkIf(cond, then, els, "none")...)
		case *ast.SwitchStmt:
			if x.Init != nil {
				out = append(out, c.hoisted(c.stmt(x.Init, "none"))...)
			}
			out = append(out, c.switchStmt(x, "none")...)
		default:
			out = append(out, c.hoisted(c.stmt(s, "none"))...)
		}
	}
	return retail(absorb(out), tail)
}

// absorb: guard clauses.  When one branch of an `if` always leaves and something follows the `if`, what follows
// belongs to the other branch.
func absorb(list []*N) []*N {
	for i, n := range list {
		if n.Op != "if" || i == len(list)-1 {
			continue
		}
		rest := list[i+1:]
		then := n.K[1].K
		var els []*N
		if len(n.K) == 3 {
			els = n.K[2].K
		}
		switch {
		case terminates(then) && !terminates(els):
			els = absorb(append(append([]*N{}, els...), rest...))
		case len(els) > 0 && terminates(els) && !terminates(then):
			then = absorb(append(append([]*N{}, then...), rest...))
		default:
			continue
		}
		return append(append([]*N{}, list[:i]...), mkIf(n.K[0], then, els, "none")...)
	}
	return list
}

// retail: a list in tail position of a loop body (or of a function without results) loses its trailing `continue`
// (bare `return`), recursively through the branches of a final `if`.
func retail(list []*N, tail string) []*N {
	if tail != "loop" && tail != "funcvoid" {
		return list
	}
	list = stripTail(list, tail)
	if len(list) == 0 {
		return list
	}
	last := list[len(list)-1]
	if last.Op == "if" {
		then := retail(last.K[1].K, tail)
		var els []*N
		if len(last.K) == 3 {
			els = retail(last.K[2].K, tail)
		}
		list = append(append([]*N{}, list[:len(list)-1]...), mkIf(last.K[0], then, els, "none")...)
	}
	return list
}

// hoisted: private value helpers called inside the statements are followed one level: their straight-line body is put
// in front of the statement and the call replaced by the returned expression.
func (c *conv) hoisted(stmts []*N) []*N {
	if !c.follow {
		return stmts
	}
	var out []*N
	for _, s := range stmts {
		switch s.Op {
		case "return", "expr", "assign", "define", "opassign":
			n, pre := c.hoistCalls(s)
			out = append(append(out, pre...), n)
		default:
			out = append(out, s)
		}
	}
	return out
}

func (c *conv) hoistCalls(n *N) (*N, []*N) {
	if !c.follow {
		return n, nil
	}
	// only when nothing else in the statement has an effect that the hoisting could overtake
	calls := 0
	walk(n, func(x *N) {
		if strings.HasPrefix(x.Op, "call") {
			calls++
		}
	})
	if calls != 1 {
		return n, nil
	}
	var pre []*N
	done := false
	var rew func(x *N) *N
	rew = func(x *N) *N {
		if !done && x.Op == "call" && x.K[0].isID() {
			if h, ok := c.nm.helpers[x.K[0].id()]; ok && h.Type.Results != nil && len(h.Type.Results.List) == 1 && len(h.Type.Results.List[0].Names) <= 1 {
				if b, ok := c.nm.helperBody(h, x.K[1:]); ok && len(b.K) > 0 {
					last := b.K[len(b.K)-1]
					head := nd("block", b.K[:len(b.K)-1]...)
					if last.Op == "return" && len(last.K) == 1 && !hasReturn(head) {
						done = true
						pre = head.K
						return last.K[0]
					}
				}
			}
		}
		if x.Op == "funclit" {
			return x
		}
		out := &N{Op: x.Op}
		for _, k := range x.K {
			out.K = append(out.K, rew(k))
		}
		return out
	}
	r := rew(n)
	return r, pre
}

// switchStmt: an if / else-if chain; `break` inside a case leaves the switch and `fallthrough` is not translated,
// both keep the statement opaque.
func (c *conv) switchStmt(x *ast.SwitchStmt, tail string) []*N {
	opaque := false
	ast.Inspect(x.Body, func(n ast.Node) bool {
		switch b := n.(type) {
		case *ast.BranchStmt:
			if b.Tok == token.FALLTHROUGH || (b.Tok == token.BREAK && b.Label == nil) {
				opaque = true
			}
		case *ast.ForStmt, *ast.RangeStmt, *ast.FuncLit:
			return false // a break in there belongs to the loop (conservative: nested switch breaks are rare)
		}
		return true
	})
	if opaque {
		return []*N{leaf("raw:" + c.nm.p.Src(x))}
	}
	var tag *N
	if x.Tag != nil {
		tag = c.expr(x.Tag)
		if !simpleArg(tag) {
			return []*N{leaf("raw:" + c.nm.p.Src(x))}
		}
	}
	type arm struct {
		cond *N
		body []*N
	}
	var arms []arm
	var def []*N
	hasDef := false
	for _, cc := range x.Body.List {
		cl := cc.(*ast.CaseClause)
		body := c.block(cl.Body, tail)
		if cl.List == nil {
			def, hasDef = body, true
			continue
		}
		var cond *N
		for _, v := range cl.List {
			var one *N
			if tag != nil {
				one = nd("==", tag.clone(), c.expr(v))
			} else {
				one = c.expr(v)
			}
			if cond == nil {
				cond = one
			} else {
				cond = nd("or", cond, one)
			}
		}
		arms = append(arms, arm{cond, body})
	}
	_ = hasDef
	els := def
	for i := len(arms) - 1; i >= 0; i-- {
		els = mkIf(arms[i].cond, arms[i].body, els, tail)
	}
	return els
}

func (c *conv) lhsList(es []ast.Expr) *N {
	n := nd("lhs")
	for _, e := range es {
		if id, ok := e.(*ast.Ident); ok && id.Name == "_" {
			n.K = append(n.K, leaf("_"))
		} else {
			n.K = append(n.K, c.expr(e))
		}
	}
	return n
}

func (c *conv) stmt(s ast.Stmt, tail string) []*N {
	switch x := s.(type) {
	case nil:
		return nil
	case *ast.EmptyStmt:
		return nil
	case *ast.ExprStmt:
		if c.isLogCall(x.X) {
			return nil
		}
		if call, ok := x.X.(*ast.CallExpr); ok {
			if id, ok := call.Fun.(*ast.Ident); ok {
				if id.Name == "panic" {
					return []*N{nd("panic")}
				}
				// statement helper without result
				if h, ok := c.nm.helpers[id.Name]; ok && c.follow && h.Type.Results == nil {
					if b, ok := c.nm.helperBody(h, c.exprs(call.Args)); ok && !hasReturn(b) {
						return b.K
					}
				}
			}
		}
		return []*N{nd("expr", c.expr(x.X))}
	case *ast.DeferStmt:
		if c.isLogCall(x.Call) {
			return nil
		}
		if fl, ok := x.Call.Fun.(*ast.FuncLit); ok {
			if len(c.block(fl.Body.List, "funcvoid")) == 0 {
				return nil // a deferred closure that only logs
			}
		}
		return []*N{nd("defer", c.expr(x.Call))}
	case *ast.GoStmt:
		return []*N{nd("go", c.expr(x.Call))}
	case *ast.ReturnStmt:
		// `return h(args)` where h is a private helper: its body, its returns become ours
		if len(x.Results) == 1 && c.follow {
			if call, ok := x.Results[0].(*ast.CallExpr); ok {
				if id, ok := call.Fun.(*ast.Ident); ok {
					if h, ok := c.nm.helpers[id.Name]; ok {
						if b, ok := c.nm.helperBody(h, c.exprs(call.Args)); ok && len(b.K) > 0 {
							return b.K
						}
					}
				}
			}
		}
		return []*N{nd("return", c.exprs(x.Results)...)}
	case *ast.BranchStmt:
		n := nd(strings.ToLower(x.Tok.String()))
		if x.Label != nil {
			n.K = append(n.K, leaf("label:"+x.Label.Name))
		}
		return []*N{n}
	case *ast.IncDecStmt:
		return []*N{nd("incdec", leaf(x.Tok.String()), c.expr(x.X))}
	case *ast.BlockStmt:
		return []*N{nd("block", c.block(x.List, tail)...)}
	case *ast.LabeledStmt:
		return append([]*N{leaf("label:" + x.Label.Name)}, c.stmt(x.Stmt, tail)...)
	case *ast.DeclStmt:
		gd, ok := x.Decl.(*ast.GenDecl)
		if !ok || gd.Tok != token.VAR {
			return []*N{leaf("raw:" + c.nm.p.Src(s))}
		}
		var out []*N
		for _, sp := range gd.Specs {
			vs := sp.(*ast.ValueSpec)
			if len(vs.Values) > 0 {
				out = append(out, c.define(c.lhsList(identExprs(vs.Names)), c.exprs(vs.Values))...)
				continue
			}
			for _, n := range vs.Names {
				c.types[n.Name] = c.nm.p.Src(vs.Type)
				out = append(out, nd("var", nd("lhs", leaf("id:"+n.Name)), c.typ(vs.Type)))
			}
		}
		return out
	case *ast.AssignStmt:
		switch x.Tok {
		case token.DEFINE:
			return c.define(c.lhsList(x.Lhs), c.exprs(x.Rhs))
		case token.ASSIGN:
			lhs := c.lhsList(x.Lhs)
			allBlank := true
			for _, l := range lhs.K {
				if l.Op != "_" {
					allBlank = false
				}
			}
			if allBlank && len(x.Rhs) == 1 {
				return []*N{nd("expr", c.expr(x.Rhs[0]))}
			}
			return []*N{nd("assign", lhs, nd("rhs", c.exprs(x.Rhs)...))}
		default:
			return []*N{nd("opassign", c.lhsList(x.Lhs), leaf(x.Tok.String()), nd("rhs", c.exprs(x.Rhs)...))}
		}
	case *ast.ForStmt:
		init := nd("block", c.stmt(x.Init, "none")...)
		post := nd("block", c.stmt(x.Post, "none")...)
		cond := leaf("id:true")
		if x.Cond != nil {
			cond = pushNot(c.expr(x.Cond))
		}
		return []*N{nd("for", init, cond, post, nd("block", c.block(x.Body.List, "loop")...))}
	case *ast.RangeStmt:
		key, val := leaf("_"), leaf("_")
		if id, ok := x.Key.(*ast.Ident); ok && id.Name != "_" {
			key = leaf("id:" + id.Name)
		} else if x.Key != nil && !ok {
			key = c.expr(x.Key)
		}
		if id, ok := x.Value.(*ast.Ident); ok && id.Name != "_" {
			val = leaf("id:" + id.Name)
		} else if x.Value != nil && !ok {
			val = c.expr(x.Value)
		}
		xs := c.expr(x.X)
		body := c.block(x.Body.List, "loop")
		// for i := range xs { v := xs[i]; … }  ==  for i, v := range xs { … }
		if val.Op == "_" && key.isID() && len(body) > 0 && body[0].Op == "define" && len(body[0].K[0].K) == 1 &&
			len(body[0].K[1].K) == 1 && body[0].K[0].K[0].isID() {
			r := body[0].K[1].K[0]
			if r.Op == "index" && r.K[0].String() == xs.String() && r.K[1].String() == key.String() {
				v := body[0].K[0].K[0]
				if !assignedNames(nd("block", body[1:]...))[v.id()] {
					val, body = v, body[1:]
				}
			}
		}
		// for i := range xs { … xs[i] … } with i used for nothing else and xs not written  ==  for _, v := range xs { … v … }
		if val.Op == "_" && key.isID() && len(body) > 0 {
			b0 := nd("block", body...)
			elem := nd("index", xs, key).String()
			if base := baseID(xs); base != "" && !c.elemsWritten(b0, xs, key) && !assignedNames(b0)[key.id()] {
				c.nm.fresh++
				v := leaf(fmt.Sprintf("id:rv%d$", c.nm.fresh))
				other := false
				var rew func(n *N) *N
				rew = func(n *N) *N {
					if n.String() == elem {
						return v.clone()
					}
					if n.isID() && n.Op == key.Op {
						other = true
					}
					out := &N{Op: n.Op}
					for _, k := range n.K {
						out.K = append(out.K, rew(k))
					}
					return out
				}
				nb := rew(b0)
				if !other && nb.String() != b0.String() {
					val, body = v, nb.K
				}
			}
		}
		blk := nd("block", body...)
		used := func(id *N) bool {
			return contains(blk, func(n *N) bool { return n.isID() && n.Op == id.Op })
		}
		if key.isID() && !used(key) {
			key = leaf("_")
		}
		if val.isID() && !used(val) {
			val = leaf("_")
		}
		op := "range"
		if x.Tok == token.ASSIGN {
			op = "range="
		}
		return []*N{nd(op, key, val, xs, blk)}
	}
	return []*N{leaf("raw:" + c.nm.p.Src(s))}
}

func identExprs(ids []*ast.Ident) []ast.Expr {
	var out []ast.Expr
	for _, i := range ids {
		out = append(out, i)
	}
	return out
}

// elemsWritten: the loop body writes xs or one of its elements.  Writes THROUGH xs[key] (xs[key].f = …, xs[key].m[k] = …)
// do not count when the elements are pointers.
func (c *conv) elemsWritten(body, xs, key *N) bool {
	base := baseID(xs)
	elem := nd("index", xs, key).String()
	written := false
	check := func(l *N) {
		if baseID(l) != base {
			return
		}
		if c.ptrElems(xs) {
			// strip selectors / indexes down to xs[key]: something must have been stripped
			n, depth := l, 0
			for n.Op == "sel" || n.Op == "index" {
				if n.String() == elem {
					break
				}
				n, depth = n.K[0], depth+1
			}
			if n.String() == elem && depth > 0 {
				return
			}
		}
		written = true
	}
	walk(body, func(x *N) {
		switch x.Op {
		case "assign", "opassign":
			for _, l := range x.K[0].K {
				check(l)
			}
		case "incdec":
			check(x.K[1])
		case "un:&":
			check(x.K[0])
		}
	})
	return written
}

// define: `x := e`; the empty slice in all its spellings is a declaration; a straight-line private helper with one
// final return is inlined.
func (c *conv) define(lhs *N, rhs []*N) []*N {
	if len(lhs.K) == 1 && len(rhs) == 1 && lhs.K[0].isID() {
		r := rhs[0]
		if r.Op == "emptyslice" || (r.Op == "lit" && len(r.K) == 1 && strings.HasPrefix(r.K[0].Op, "type:[]")) {
			c.types[lhs.K[0].id()] = strings.TrimPrefix(r.K[0].Op, "type:")
			return []*N{nd("var", lhs, r.K[0])}
		}
	}
	if len(rhs) == 1 && rhs[0].Op == "call" && rhs[0].K[0].isID() && c.follow {
		if h, ok := c.nm.helpers[rhs[0].K[0].id()]; ok {
			if b, ok := c.nm.helperBody(h, rhs[0].K[1:]); ok && len(b.K) > 0 {
				last := b.K[len(b.K)-1]
				pre := nd("block", b.K[:len(b.K)-1]...)
				if last.Op == "return" && len(last.K) == len(lhs.K) && !hasReturn(pre) {
					return append(pre.K, nd("define", lhs, nd("rhs", last.K...)))
				}
			}
		}
	}
	return []*N{nd("define", lhs, nd("rhs", rhs...))}
}

// ---------------------------------------------------------------- passes on the tree

func pure(n *N) bool {
	return !contains(n, func(x *N) bool {
		if strings.HasPrefix(x.Op, "call") {
			f := x.K[0]
			if f.isID() {
				switch f.id() {
				case "len", "cap", "string", "int", "int32", "int64", "uint32", "uint64", "float64":
					return false
				}
			}
			return true
		}
		return x.Op == "funclit" || x.Op == "un:<-" || x.Op == "ERR" || x.Op == "lit" || x.Op == "un:&" ||
			x.Op == "emptyslice" || x.Op == "assert" || x.Op == "deref"
	})
}

// inlineLocals: `x := e` with pure e, x defined once, never assigned or address-taken, and no variable of e ever
// assigned in the function -> uses of x become e.
func inlineLocals(body *N) *N {
	for round := 0; round < 8; round++ {
		assigned := assignedNames(body)
		defCount := map[string]int{}
		walk(body, func(x *N) {
			switch x.Op {
			case "define", "var":
				for _, l := range x.K[0].K {
					if l.isID() {
						defCount[l.id()]++
					}
				}
			case "range", "range=":
				for _, l := range x.K[:2] {
					if l.isID() {
						defCount[l.id()] += 2 // loop variables change
					}
				}
			case "param":
				if x.K[0].isID() {
					defCount[x.K[0].id()] += 2
				}
			}
		})
		var target string
		var value *N
		walk(body, func(x *N) {
			if target != "" || x.Op != "define" || len(x.K[0].K) != 1 || len(x.K[1].K) != 1 || !x.K[0].K[0].isID() {
				return
			}
			name, e := x.K[0].K[0].id(), x.K[1].K[0]
			if defCount[name] != 1 || assigned[name] || !pure(e) {
				return
			}
			ok := true
			walk(e, func(v *N) {
				if v.isID() && (assigned[v.id()] || v.id() == name) {
					ok = false
				}
			})
			// a plain alias `x := y` of a variable that is only written through (map / slice / pointer) before the alias
			if !ok && e.isID() && e.id() != name && defCount[e.id()] == 1 && aliasOK(body, x, name, e.id()) {
				ok = true
			}
			if ok {
				target, value = name, e
			}
		})
		if target == "" {
			return body
		}
		var rew func(n *N) *N
		rew = func(n *N) *N {
			if n.isID() && n.id() == target {
				return value.clone()
			}
			out := &N{Op: n.Op}
			for _, k := range n.K {
				if k.Op == "define" && len(k.K[0].K) == 1 && k.K[0].K[0].isID() && k.K[0].K[0].id() == target {
					continue
				}
				out.K = append(out.K, rew(k))
			}
			return out
		}
		body = rew(body)
	}
	return body
}

// inlineSingleUse: `x := f(…)` whose only use is in the statement that follows, where every other call encloses the use
// (so nothing with a possible effect is evaluated between the original position of the call and its new one):
// the call moves into the use.  Names are unique when this runs.
func inlineSingleUse(body *N) *N {
	reads := map[string]int{}
	var count func(n *N)
	count = func(n *N) {
		for i, k := range n.K {
			if (n.Op == "define" || n.Op == "var") && i == 0 {
				for _, l := range k.K {
					if !l.isID() {
						count(l)
					}
				}
				continue
			}
			if k.isID() {
				reads[k.id()]++
			}
			count(k)
		}
	}
	count(body)
	assigned := assignedNames(body)
	var rew func(n *N) *N
	rew = func(n *N) *N {
		out := &N{Op: n.Op}
		for i := 0; i < len(n.K); i++ {
			k := n.K[i]
			if n.Op == "block" && k.Op == "define" && len(k.K[0].K) == 1 && len(k.K[1].K) == 1 && k.K[0].K[0].isID() && i+1 < len(n.K) {
				x, e, next := k.K[0].K[0].id(), k.K[1].K[0], n.K[i+1]
				okStmt := map[string]bool{"assign": true, "define": true, "expr": true, "return": true, "opassign": true}[next.Op]
				// a named condition: `c := e; if c {…}` (nothing sits between the definition and the test)
				if next.Op == "if" && reads[x] == 1 && !assigned[x] && (pure(e) && contains(next.K[0], func(m *N) bool { return m.isID() && m.id() == x }) || singleUseOK(next.K[0], x)) {
					var sub func(m *N) *N
					sub = func(m *N) *N {
						if m.isID() && m.id() == x {
							return e
						}
						o := &N{Op: m.Op}
						for _, kk := range m.K {
							o.K = append(o.K, sub(kk))
						}
						return o
					}
					nn := &N{Op: "if", K: append([]*N{pushNot(sub(next.K[0]))}, next.K[1:]...)}
					if nn.K[0].Op == "!" && len(nn.K) == 3 {
						nn = &N{Op: "if", K: []*N{nn.K[0].K[0], nn.K[2], nn.K[1]}}
					}
					out.K = append(out.K, rew(nn))
					i++
					continue
				}
				if !pure(e) && reads[x] == 1 && !assigned[x] && okStmt && singleUseOK(next, x) {
					var sub func(m *N) *N
					sub = func(m *N) *N {
						if m.isID() && m.id() == x {
							return e
						}
						o := &N{Op: m.Op}
						for _, kk := range m.K {
							o.K = append(o.K, sub(kk))
						}
						return o
					}
					out.K = append(out.K, rew(sub(next)))
					i++
					continue
				}
			}
			out.K = append(out.K, rew(k))
		}
		return out
	}
	return rew(body)
}

// singleUseOK: x occurs in the statement outside closures, and every call of the statement contains x.
func singleUseOK(stmt *N, x string) bool {
	has := func(n *N) bool { return contains(n, func(m *N) bool { return m.isID() && m.id() == x }) }
	if !has(stmt) {
		return false
	}
	ok := true
	walk(stmt, func(n *N) {
		if (strings.HasPrefix(n.Op, "call") || n.Op == "funclit") && !(has(n) && n.Op != "funclit") {
			ok = false
		}
	})
	// the left-hand side of an assignment is evaluated first: it must not depend on anything the call could change
	return ok
}

// aliasOK: after the definition `x := y` (node def) neither variable is written, directly or through, and if the
// definition sits in a loop neither is written anywhere in that loop.
func aliasOK(body, def *N, x, y string) bool {
	pos, defPos := 0, -1
	var defLoop *N
	type w struct {
		pos  int
		loop []*N
	}
	var writes []w
	var loops []*N
	var visit func(n *N)
	visit = func(n *N) {
		pos++
		if n == def {
			defPos = pos
			if len(loops) > 0 {
				defLoop = loops[len(loops)-1]
			}
		}
		isLoop := n.Op == "for" || n.Op == "range" || n.Op == "range="
		if isLoop {
			loops = append(loops, n)
		}
		switch n.Op {
		case "assign", "opassign":
			for _, l := range n.K[0].K {
				if b := baseID(l); b == x || b == y {
					writes = append(writes, w{pos, append([]*N{}, loops...)})
				}
			}
		case "incdec":
			if b := baseID(n.K[1]); b == x || b == y {
				writes = append(writes, w{pos, append([]*N{}, loops...)})
			}
		case "un:&":
			if b := baseID(n.K[0]); b == x || b == y {
				writes = append(writes, w{pos, append([]*N{}, loops...)})
			}
		case "define", "var":
			for _, l := range n.K[0].K {
				if l.isID() && l.id() == y && n != def {
					// y's own definition is not a write after the alias as long as it precedes it (checked by position)
					writes = append(writes, w{pos, append([]*N{}, loops...)})
				}
			}
		}
		for _, k := range n.K {
			visit(k)
		}
		if isLoop {
			loops = loops[:len(loops)-1]
		}
	}
	visit(body)
	if defPos < 0 {
		return false
	}
	for _, wr := range writes {
		if wr.pos > defPos {
			return false
		}
		for _, l := range wr.loop {
			if l == defLoop && defLoop != nil {
				return false
			}
		}
	}
	return true
}

// dropUnusedDefs: a definition none of whose variables is ever read becomes an expression statement (or vanishes).
func dropUnusedDefs(body *N) *N {
	for round := 0; round < 8; round++ {
		reads := map[string]int{}
		var count func(n *N, lhs bool)
		count = func(n *N, lhs bool) {
			if n.isID() && !lhs {
				reads[n.id()]++
			}
			for i, k := range n.K {
				switch {
				case (n.Op == "define" || n.Op == "var") && i == 0:
					// defining occurrences are not reads
				case n.Op == "assign" && i == 0:
					for _, l := range k.K {
						if !l.isID() {
							count(l, false)
						}
					}
				default:
					count(k, false)
				}
			}
		}
		count(body, false)
		changed := false
		var rew func(n *N) *N
		rew = func(n *N) *N {
			out := &N{Op: n.Op}
			for _, k := range n.K {
				if k.Op == "define" || k.Op == "var" {
					dead := true
					for _, l := range k.K[0].K {
						if l.isID() && reads[l.id()] > 0 || !l.isID() && l.Op != "_" {
							dead = false
						}
					}
					if dead {
						changed = true
						if k.Op == "define" {
							for _, r := range k.K[1].K {
								if !pure(r) {
									out.K = append(out.K, nd("expr", r))
								}
							}
						}
						continue
					}
				}
				out.K = append(out.K, rew(k))
			}
			return out
		}
		body = rew(body)
		if !changed {
			break
		}
	}
	// `if c {}` left over after dropping logs
	var clean func(n *N) *N
	clean = func(n *N) *N {
		out := &N{Op: n.Op}
		for _, k := range n.K {
			k = clean(k)
			if k.Op == "if" && len(k.K) == 2 && len(k.K[1].K) == 0 {
				if !simpleArg(k.K[0]) {
					out.K = append(out.K, nd("expr", k.K[0]))
				}
				continue
			}
			out.K = append(out.K, k)
		}
		return out
	}
	b := clean(body)
	if b.String() != body.String() {
		return dropUnusedDefs(b)
	}
	return b
}

// rename: alpha-renaming by order of definition, scope aware.
func rename(t *N) {
	type scope map[string]string
	var scopes []scope
	counter := 0
	push := func() { scopes = append(scopes, scope{}) }
	pop := func() { scopes = scopes[:len(scopes)-1] }
	lookup := func(name string) (string, bool) {
		for i := len(scopes) - 1; i >= 0; i-- {
			if v, ok := scopes[i][name]; ok {
				return v, true
			}
		}
		return "", false
	}
	bind := func(name, prefix string) string {
		v := fmt.Sprintf("%s%d", prefix, counter)
		counter++
		scopes[len(scopes)-1][name] = v
		return v
	}
	var visit func(n *N)
	use := func(n *N) {
		if n.isID() {
			if v, ok := lookup(n.id()); ok {
				n.Op = "id:" + v
			}
		}
	}
	var block func(n *N)
	block = func(n *N) {
		push()
		for _, k := range n.K {
			visit(k)
		}
		pop()
	}
	visit = func(n *N) {
		switch n.Op {
		case "func", "funclit":
			push()
			for _, k := range n.K[:len(n.K)-1] {
				for _, p := range k.K {
					if p.Op == "param" && p.K[0].isID() {
						p.K[0].Op = "id:" + bind(p.K[0].id(), "p")
					}
				}
			}
			block(n.K[len(n.K)-1])
			pop()
		case "block":
			block(n)
		case "define", "var":
			if n.Op == "define" {
				visit(n.K[1]) // right-hand side sees the old bindings
			}
			cur := scopes[len(scopes)-1]
			allOld := n.Op == "define"
			for _, l := range n.K[0].K {
				if l.isID() {
					if _, ok := cur[l.id()]; !ok {
						allOld = false
					}
				}
			}
			for _, l := range n.K[0].K {
				if !l.isID() {
					visit(l)
					continue
				}
				if v, ok := cur[l.id()]; ok {
					l.Op = "id:" + v
				} else {
					l.Op = "id:" + bind(l.id(), "v")
				}
			}
			if allOld {
				n.Op = "assign"
			}
		case "if":
			visit(n.K[0])
			for _, k := range n.K[1:] {
				visit(k)
			}
		case "for":
			push()
			for _, k := range n.K[0].K { // init shares the loop scope
				visit(k)
			}
			visit(n.K[1])
			for _, k := range n.K[2].K {
				visit(k)
			}
			visit(n.K[3])
			pop()
		case "range", "range=":
			visit(n.K[2])
			push()
			for _, l := range n.K[:2] {
				if l.isID() {
					if n.Op == "range" {
						l.Op = "id:" + bind(l.id(), "v")
					} else {
						use(l)
					}
				} else {
					visit(l)
				}
			}
			visit(n.K[3])
			pop()
		default:
			if n.isID() {
				use(n)
				return
			}
			for _, k := range n.K {
				visit(k)
			}
		}
	}
	scopes = nil
	push()
	visit(t)
}

// canonConds: flatten and sort && / ||, sort the operands of ==.
func canonConds(n *N) {
	for _, k := range n.K {
		canonConds(k)
	}
	switch n.Op {
	case "and", "or":
		var flat []*N
		for _, k := range n.K {
			if k.Op == n.Op {
				flat = append(flat, k.K...)
			} else {
				flat = append(flat, k)
			}
		}
		sort.SliceStable(flat, func(i, j int) bool { return flat[i].String() < flat[j].String() })
		n.K = flat
	case "==":
		if len(n.K) == 2 && n.K[1].String() < n.K[0].String() {
			n.K[0], n.K[1] = n.K[1], n.K[0]
		}
	}
}

// ---------------------------------------------------------------- unification with a template

// unify matches the template tree against the source tree; holes (string leaves "§NAME§") bind the source's string.
func unify(tmpl, src *N, bind map[string]string, path string) error {
	if isHole(tmpl) {
		if !src.isStr() {
			return fmt.Errorf("at %s: expected a string literal, source has %s", path, src)
		}
		name := strings.Trim(tmpl.str(), "§")
		if old, ok := bind[name]; ok && old != src.str() {
			return fmt.Errorf("at %s: %s is %q here and %q elsewhere", path, name, src.str(), old)
		}
		bind[name] = src.str()
		return nil
	}
	if tmpl.Op != src.Op || len(tmpl.K) != len(src.K) {
		return fmt.Errorf("at %s:\n    expected %s\n    source   %s", path, clip(tmpl.String()), clip(src.String()))
	}
	for i := range tmpl.K {
		if err := unify(tmpl.K[i], src.K[i], bind, path+"/"+tmpl.Op); err != nil {
			return err
		}
	}
	return nil
}

func clip(s string) string {
	if len(s) > 400 {
		return s[:400] + "…"
	}
	return s
}
