// factgen policy: regenerates lean/Galaxy/Generated/Policy.lean from /repo/pkg/policy/{policy,event}.go
//
// Purely syntactic (go/ast).  Emits, as Lean defs, everything model M7 (Galaxy.Policy) and the properties
// C16 / C15 use as a literal or as a structural fact:
//   - name prefixes (GLX, GLX-PLCY, GLX-POD, GLX-INGRESS, GLX-EGRESS), set / chain name formats, hash pipeline
//     and truncation of nameHash / tableNameHash;
//   - the rule templates of writePolicyChainRules (with their guards), of SyncPodChains and the base jumps of
//     ensureBasicChain, as token lists; which set names writeRules passes as source / destination;
//   - the ingressOrEgress defaulting (as Lean functions of the numbers of ingress / egress rules);
//   - rulePorts shape (default protocol, port-less entries skipped, non-tcp goes to the udp list);
//   - peerTable precedence and the calls it makes; the nomatch option of ipBlockToTable;
//   - the order of the sync steps in Run and in the policy event handlers.
//
// Exits non-zero when a function no longer has the shape it knows how to translate.
package main

import (
	"fmt"
	"go/ast"
	"go/token"
	"strconv"
	"strings"

	"factgen/fg"
)

const (
	srcPolicy = "pkg/policy/policy.go"
	srcEvent  = "pkg/policy/event.go"
)

type gen struct {
	p, ev *fg.Parsed
	vars  map[string]string
	out   strings.Builder
}

func (g *gen) emit(format string, a ...interface{}) { fmt.Fprintf(&g.out, format+"\n", a...) }

func leanStrs(xs []string) string {
	ys := make([]string, len(xs))
	for i, x := range xs {
		ys[i] = fg.LeanStr(x)
	}
	return "[" + strings.Join(ys, ", ") + "]"
}

// ---- package-level string variables: literals, X + "lit", T(X + "lit")

func (g *gen) evalStr(e ast.Expr) (string, error) {
	switch x := e.(type) {
	case *ast.BasicLit:
		if x.Kind == token.STRING {
			return strconv.Unquote(x.Value)
		}
	case *ast.Ident:
		if v, ok := g.vars[x.Name]; ok {
			return v, nil
		}
	case *ast.ParenExpr:
		return g.evalStr(x.X)
	case *ast.BinaryExpr:
		if x.Op == token.ADD {
			a, err := g.evalStr(x.X)
			if err != nil {
				return "", err
			}
			b, err := g.evalStr(x.Y)
			if err != nil {
				return "", err
			}
			return a + b, nil
		}
	case *ast.CallExpr: // type conversion utiliptables.Chain(...)
		if len(x.Args) == 1 && strings.HasSuffix(g.p.Src(x.Fun), "Chain") {
			return g.evalStr(x.Args[0])
		}
	}
	return "", fmt.Errorf("%s: cannot evaluate string expression %s", srcPolicy, g.p.Src(e))
}

func (g *gen) loadVars() error {
	g.vars = map[string]string{}
	for _, d := range g.p.File.Decls {
		gd, ok := d.(*ast.GenDecl)
		if !ok || gd.Tok != token.VAR {
			continue
		}
		for _, s := range gd.Specs {
			vs := s.(*ast.ValueSpec)
			for i, n := range vs.Names {
				if i < len(vs.Values) {
					if v, err := g.evalStr(vs.Values[i]); err == nil {
						g.vars[n.Name] = v
					}
				}
			}
		}
	}
	for _, want := range []string{"NamePrefix", "policyChainPrefix", "podChainPrefix", "ingressChain", "egressChain",
		"chainNotExistErr"} {
		if _, ok := g.vars[want]; !ok {
			return fmt.Errorf("%s: package variable %s not found / not a string expression", srcPolicy, want)
		}
	}
	return nil
}

// ---- token templates

// tokOf renders one word of a rule template: Tok.lit "x" | Tok.var "src text" | Tok.join "src" "sep" | Tok.splice "v"
func (g *gen) tokOf(e ast.Expr) (string, error) {
	switch x := e.(type) {
	case *ast.BasicLit:
		if x.Kind == token.STRING {
			s, err := strconv.Unquote(x.Value)
			if err != nil {
				return "", err
			}
			return "Tok.lit " + fg.LeanStr(s), nil
		}
	case *ast.Ident:
		return "Tok.var " + fg.LeanStr(x.Name), nil
	case *ast.SelectorExpr:
		return "Tok.var " + fg.LeanStr(g.p.Src(x)), nil
	case *ast.CallExpr:
		fn := g.p.Src(x.Fun)
		if fn == "string" && len(x.Args) == 1 {
			if id, ok := x.Args[0].(*ast.Ident); ok {
				if v, ok := g.vars[id.Name]; ok {
					return "Tok.lit " + fg.LeanStr(v), nil
				}
				return "Tok.var " + fg.LeanStr(id.Name), nil
			}
		}
		if fn == "strings.Join" && len(x.Args) == 2 {
			if sep, ok := x.Args[1].(*ast.BasicLit); ok && sep.Kind == token.STRING {
				s, _ := strconv.Unquote(sep.Value)
				return "Tok.join " + fg.LeanStr(g.p.Src(x.Args[0])) + " " + fg.LeanStr(s), nil
			}
		}
		if fn == "policyChainName" && len(x.Args) == 1 {
			return "Tok.var " + fg.LeanStr("policyChainName"), nil
		}
	}
	return "", fmt.Errorf("%s: cannot translate template word %s", srcPolicy, g.p.Src(e))
}

func (g *gen) toksOf(es []ast.Expr) ([]string, error) {
	var out []string
	for _, e := range es {
		t, err := g.tokOf(e)
		if err != nil {
			return nil, err
		}
		out = append(out, t)
	}
	return out, nil
}

func leanToks(ts []string) string { return "[" + strings.Join(ts, ", ") + "]" }

// stringSliceLit returns the elements of a `[]string{...}` composite literal.
func stringSliceLit(e ast.Expr) ([]ast.Expr, bool) {
	cl, ok := e.(*ast.CompositeLit)
	if !ok {
		return nil, false
	}
	at, ok := cl.Type.(*ast.ArrayType)
	if !ok || at.Len != nil {
		return nil, false
	}
	if id, ok := at.Elt.(*ast.Ident); !ok || id.Name != "string" {
		return nil, false
	}
	return cl.Elts, true
}

// argsBlock translates a block of the shape
//
//	args := []string{...}; args = append(args, ...)*; writeLine(filterRules, args...)
func (g *gen) argsBlock(b *ast.BlockStmt) ([]string, error) {
	var toks []string
	seenWrite := false
	for _, st := range b.List {
		switch s := st.(type) {
		case *ast.AssignStmt:
			if len(s.Lhs) != 1 || g.p.Src(s.Lhs[0]) != "args" || len(s.Rhs) != 1 {
				return nil, fmt.Errorf("writePolicyChainRules: unexpected statement %s", g.p.Src(s))
			}
			if els, ok := stringSliceLit(s.Rhs[0]); ok && s.Tok == token.DEFINE {
				t, err := g.toksOf(els)
				if err != nil {
					return nil, err
				}
				toks = append(toks, t...)
				continue
			}
			call, ok := s.Rhs[0].(*ast.CallExpr)
			if !ok || g.p.Src(call.Fun) != "append" || len(call.Args) < 2 || g.p.Src(call.Args[0]) != "args" {
				return nil, fmt.Errorf("writePolicyChainRules: unexpected statement %s", g.p.Src(s))
			}
			if call.Ellipsis != token.NoPos {
				if len(call.Args) != 2 {
					return nil, fmt.Errorf("writePolicyChainRules: unexpected append %s", g.p.Src(s))
				}
				toks = append(toks, "Tok.splice "+fg.LeanStr(g.p.Src(call.Args[1])))
				continue
			}
			t, err := g.toksOf(call.Args[1:])
			if err != nil {
				return nil, err
			}
			toks = append(toks, t...)
		case *ast.ExprStmt:
			if g.p.Src(s.X) != "writeLine(filterRules, args...)" {
				return nil, fmt.Errorf("writePolicyChainRules: unexpected statement %s", g.p.Src(s))
			}
			seenWrite = true
		default:
			return nil, fmt.Errorf("writePolicyChainRules: unexpected statement %s", g.p.Src(st))
		}
	}
	if !seenWrite {
		return nil, fmt.Errorf("writePolicyChainRules: block does not write its rule")
	}
	return toks, nil
}

func (g *gen) policyChainTemplates() error {
	fd, err := g.p.Fn("", "writePolicyChainRules")
	if err != nil {
		return err
	}
	var params []string
	for _, f := range fd.Type.Params.List {
		for _, n := range f.Names {
			params = append(params, n.Name)
		}
	}
	g.emit("-- writePolicyChainRules(%s)", strings.Join(params, ", "))
	g.emit("def plcyParams : List String := %s", leanStrs(params))
	if len(fd.Body.List) != 1 {
		return fmt.Errorf("writePolicyChainRules: expected a single outer loop")
	}
	outer, ok := fd.Body.List[0].(*ast.RangeStmt)
	if !ok || len(outer.Body.List) != 1 {
		return fmt.Errorf("writePolicyChainRules: expected `for range` over the source tables")
	}
	inner, ok := outer.Body.List[0].(*ast.RangeStmt)
	if !ok {
		return fmt.Errorf("writePolicyChainRules: expected nested `for range` over the destination tables")
	}
	g.emit("def plcyOuterLoop : String × String := (%s, %s)", fg.LeanStr(g.p.Src(outer.Value)), fg.LeanStr(g.p.Src(outer.X)))
	g.emit("def plcyInnerLoop : String × String := (%s, %s)", fg.LeanStr(g.p.Src(inner.Value)), fg.LeanStr(g.p.Src(inner.X)))
	if len(inner.Body.List) != 4 {
		return fmt.Errorf("writePolicyChainRules: expected setRules + three guarded templates, found %d statements",
			len(inner.Body.List))
	}
	as, ok := inner.Body.List[0].(*ast.AssignStmt)
	if !ok || g.p.Src(as.Lhs[0]) != "setRules" {
		return fmt.Errorf("writePolicyChainRules: first statement of the inner loop is not setRules := ...")
	}
	els, ok := stringSliceLit(as.Rhs[0])
	if !ok {
		return fmt.Errorf("writePolicyChainRules: setRules is not a []string literal")
	}
	t, err := g.toksOf(els)
	if err != nil {
		return err
	}
	g.emit("def plcySetRules : List Tok := %s", leanToks(t))
	var guards []string
	chunk := int64(-1) // -1 = not seen yet, 0 = no chunking (one rule per protocol), n = chunks of at most n ports
	for i, name := range []string{"plcyTcp", "plcyUdp", "plcyAll"} {
		var body *ast.BlockStmt
		switch st := inner.Body.List[i+1].(type) {
		case *ast.IfStmt:
			if st.Else != nil || st.Init != nil {
				return fmt.Errorf("writePolicyChainRules: statement %d of the inner loop is not a plain if", i+1)
			}
			guards = append(guards, g.p.Src(st.Cond))
			body = st.Body
			if i < 2 {
				if chunk > 0 {
					return fmt.Errorf("writePolicyChainRules: tcp and udp templates are not of the same shape")
				}
				chunk = 0
			}
		case *ast.ForStmt:
			// for i := 0; i < len(ports); i += <const> { end := i + <const>; if end > len(ports) { end = len(ports) }; <template> }
			if i >= 2 {
				return fmt.Errorf("writePolicyChainRules: the port-less template is not expected in a loop")
			}
			ports := []string{"tcpPorts", "udpPorts"}[i]
			hdr := strings.Join(strings.Fields("for "+g.p.Src(st.Init)+"; "+g.p.Src(st.Cond)+"; "+g.p.Src(st.Post)), " ")
			if hdr != "for i := 0; i < len("+ports+"); i += maxMultiportPorts" || len(st.Body.List) < 3 {
				return fmt.Errorf("writePolicyChainRules: chunk loop header changed: %s", hdr)
			}
			s0 := strings.Join(strings.Fields(g.p.Src(st.Body.List[0])), " ")
			s1 := strings.Join(strings.Fields(g.p.Src(st.Body.List[1])), " ")
			if s0 != "end := i + maxMultiportPorts" || s1 != "if end > len("+ports+") { end = len("+ports+") }" {
				return fmt.Errorf("writePolicyChainRules: chunk bounds changed: %s / %s", s0, s1)
			}
			n, err := g.p.ConstInt("maxMultiportPorts")
			if err != nil {
				return err
			}
			if chunk == 0 || (chunk > 0 && chunk != n) || n <= 0 {
				return fmt.Errorf("writePolicyChainRules: tcp and udp templates are not of the same shape")
			}
			chunk = n
			guards = append(guards, hdr)
			body = &ast.BlockStmt{List: st.Body.List[2:]}
		default:
			return fmt.Errorf("writePolicyChainRules: statement %d of the inner loop is neither an if nor a chunk loop", i+1)
		}
		t, err := g.argsBlock(body)
		if err != nil {
			return err
		}
		g.emit("def %s : List Tok := %s", name, leanToks(t))
	}
	g.emit("-- ports per emitted rule: 0 = all ports of a protocol in ONE rule, n = chunks of at most n (multiport takes 15)")
	g.emit("def multiportChunk : Nat := %d", chunk)
	g.emit("def plcyGuards : List String := %s", leanStrs(guards))
	return nil
}

// writeRules: the arguments of the two writePolicyChainRules calls and the table-name lists built before them.
func (g *gen) writeRulesFacts() error {
	fd, err := g.p.Fn("PolicyManager", "writeRules")
	if err != nil {
		return err
	}
	var calls [][]string
	var appends []string
	ast.Inspect(fd.Body, func(n ast.Node) bool {
		switch x := n.(type) {
		case *ast.CallExpr:
			if g.p.Src(x.Fun) == "writePolicyChainRules" {
				var as []string
				for _, a := range x.Args {
					as = append(as, strings.Join(strings.Fields(g.p.Src(a)), " "))
				}
				calls = append(calls, as)
			}
		case *ast.AssignStmt:
			if len(x.Rhs) == 1 {
				if c, ok := x.Rhs[0].(*ast.CallExpr); ok && g.p.Src(c.Fun) == "append" {
					appends = append(appends, g.p.Src(x))
				}
			}
		}
		return true
	})
	if len(calls) != 2 {
		return fmt.Errorf("writeRules: expected two writePolicyChainRules calls, found %d", len(calls))
	}
	g.emit("-- writeRules: arguments of the ingress / egress writePolicyChainRules calls; table-name appends in order")
	g.emit("def writeRulesIngressCall : List String := %s", leanStrs(calls[0]))
	g.emit("def writeRulesEgressCall : List String := %s", leanStrs(calls[1]))
	g.emit("def writeRulesAppends : List String := %s", leanStrs(appends))
	return nil
}

// ---- set / chain names and hashes

func (g *gen) sprintfAssigns(block *ast.BlockStmt) [][3]string {
	var out [][3]string
	ast.Inspect(block, func(n ast.Node) bool {
		as, ok := n.(*ast.AssignStmt)
		if !ok || len(as.Lhs) != 1 || len(as.Rhs) != 1 {
			return true
		}
		call, ok := as.Rhs[0].(*ast.CallExpr)
		if !ok || g.p.Src(call.Fun) != "fmt.Sprintf" || len(call.Args) < 1 {
			return true
		}
		bl, ok := call.Args[0].(*ast.BasicLit)
		if !ok {
			return true
		}
		f, _ := strconv.Unquote(bl.Value)
		var args []string
		for _, a := range call.Args[1:] {
			args = append(args, g.p.Src(a))
		}
		out = append(out, [3]string{g.p.Src(as.Lhs[0]), f, strings.Join(args, ",")})
		return true
	})
	return out
}

func (g *gen) nameFormats() error {
	fd, err := g.p.Fn("PolicyManager", "policyResult")
	if err != nil {
		return err
	}
	var top, ing, egr [][3]string
	for _, st := range fd.Body.List {
		if is, ok := st.(*ast.IfStmt); ok {
			switch g.p.Src(is.Cond) {
			case "ingress":
				ing = g.sprintfAssigns(is.Body)
				continue
			case "egress":
				egr = g.sprintfAssigns(is.Body)
				continue
			}
		}
		if as, ok := st.(*ast.AssignStmt); ok {
			b := &ast.BlockStmt{List: []ast.Stmt{as}}
			top = append(top, g.sprintfAssigns(b)...)
		}
	}
	find := func(xs [][3]string, lhs, args string) (string, error) {
		for _, x := range xs {
			if x[0] == lhs && x[2] == args {
				return x[1], nil
			}
		}
		return "", fmt.Errorf("policyResult: no `%s = fmt.Sprintf(_, %s)` where expected", lhs, args)
	}
	sel, err := find(top, "tbl.Name", "NamePrefix,npNameHash")
	if err != nil {
		return err
	}
	var hashIn string
	ast.Inspect(fd.Body, func(n ast.Node) bool {
		as, ok := n.(*ast.AssignStmt)
		if ok && len(as.Lhs) == 1 && g.p.Src(as.Lhs[0]) == "npNameHash" {
			hashIn = strings.Join(strings.Fields(g.p.Src(as.Rhs[0])), " ")
		}
		return true
	})
	sip, err := find(ing, "rule.ipTable.Name", "NamePrefix,i,npNameHash")
	if err != nil {
		return err
	}
	snet, err := find(ing, "rule.netTable.Name", "NamePrefix,i,npNameHash")
	if err != nil {
		return err
	}
	dip, err := find(egr, "rule.ipTable.Name", "NamePrefix,i,npNameHash")
	if err != nil {
		return err
	}
	dnet, err := find(egr, "rule.netTable.Name", "NamePrefix,i,npNameHash")
	if err != nil {
		return err
	}
	g.emit("-- policyResult: set names; args are (NamePrefix, npNameHash) resp. (NamePrefix, i, npNameHash)")
	g.emit("def fmtSelSet : String := %s", fg.LeanStr(sel))
	g.emit("def fmtIngressIpSet : String := %s", fg.LeanStr(sip))
	g.emit("def fmtIngressNetSet : String := %s", fg.LeanStr(snet))
	g.emit("def fmtEgressIpSet : String := %s", fg.LeanStr(dip))
	g.emit("def fmtEgressNetSet : String := %s", fg.LeanStr(dnet))
	g.emit("def setHashInput : String := %s", fg.LeanStr(hashIn))
	// the ingress / egress blocks must hang the tables on the shared selector table
	if !strings.Contains(g.p.Src(fd.Body), "inRules = &ingressRule{dstIPTable: tbl}") ||
		!strings.Contains(g.p.Src(fd.Body), "eRules = &egressRule{srcIPTable: tbl}") {
		return fmt.Errorf("policyResult: ingress / egress rules no longer share the selector table `tbl`")
	}
	g.emit("def selSetShared : Bool := true")

	for _, fn := range []string{"policyChainName", "podChainName"} {
		fd, err := g.p.Fn("", fn)
		if err != nil {
			return err
		}
		if len(fd.Body.List) != 1 {
			return fmt.Errorf("%s: expected a single return", fn)
		}
		g.emit("def %sExpr : String := %s", fn, fg.LeanStr(strings.Join(strings.Fields(
			strings.TrimPrefix(g.p.Src(fd.Body.List[0]), "return ")), " ")))
	}
	for _, fn := range []string{"nameHash", "tableNameHash"} {
		fd, err := g.p.Fn("", fn)
		if err != nil {
			return err
		}
		var lines []string
		for _, st := range fd.Body.List {
			lines = append(lines, strings.Join(strings.Fields(g.p.Src(st)), " "))
		}
		g.emit("def %sBody : List String := %s", fn, leanStrs(lines))
	}
	return nil
}

// ---- ingressOrEgress

func (g *gen) boolExpr(e ast.Expr) (string, error) {
	s := strings.Join(strings.Fields(g.p.Src(e)), " ")
	switch s {
	case "true":
		return "true", nil
	case "false":
		return "false", nil
	case "len(np.Spec.Egress) > 0":
		return "decide (nEgress > 0)", nil
	case "len(np.Spec.Ingress) > 0":
		return "decide (nIngress > 0)", nil
	}
	return "", fmt.Errorf("ingressOrEgress: cannot translate default expression %q", s)
}

func (g *gen) ingressOrEgress() error {
	fd, err := g.p.Fn("", "ingressOrEgress")
	if err != nil {
		return err
	}
	if len(fd.Body.List) != 3 {
		return fmt.Errorf("ingressOrEgress: expected loop, default-if, return")
	}
	loop, ok := fd.Body.List[0].(*ast.RangeStmt)
	if !ok || g.p.Src(loop.X) != "np.Spec.PolicyTypes" || len(loop.Body.List) != 1 {
		return fmt.Errorf("ingressOrEgress: first statement is not the loop over PolicyTypes")
	}
	want := "if pt == networkv1.PolicyTypeIngress { ingress = true } else if pt == networkv1.PolicyTypeEgress { egress = true }"
	if got := strings.Join(strings.Fields(g.p.Src(loop.Body.List[0])), " "); got != want {
		return fmt.Errorf("ingressOrEgress: loop body changed: %s", got)
	}
	is, ok := fd.Body.List[1].(*ast.IfStmt)
	if !ok || g.p.Src(is.Cond) != "!ingress && !egress" || is.Else != nil || len(is.Body.List) != 2 {
		return fmt.Errorf("ingressOrEgress: defaulting if changed")
	}
	var di, de string
	for _, st := range is.Body.List {
		as, ok := st.(*ast.AssignStmt)
		if !ok || len(as.Lhs) != 1 {
			return fmt.Errorf("ingressOrEgress: defaulting body changed")
		}
		v, err := g.boolExpr(as.Rhs[0])
		if err != nil {
			return err
		}
		switch g.p.Src(as.Lhs[0]) {
		case "ingress":
			di = v
		case "egress":
			de = v
		}
	}
	if di == "" || de == "" {
		return fmt.Errorf("ingressOrEgress: defaulting body does not assign both flags")
	}
	g.emit("-- ingressOrEgress: flags are set by the loop over policyTypes; when neither is set the defaults below apply")
	g.emit("def ioeLoopSetsFlagPerType : Bool := true")
	g.emit("def ioeDefaultCond : String := %s", fg.LeanStr(g.p.Src(is.Cond)))
	g.emit("def defaultIngress (nIngress nEgress : Nat) : Bool := %s", di)
	g.emit("def defaultEgress (nIngress nEgress : Nat) : Bool := %s", de)
	return nil
}

// ---- rulePorts / peerTable / ipBlockToTable

func (g *gen) rulePorts() error {
	fd, err := g.p.Fn("", "rulePorts")
	if err != nil {
		return err
	}
	var loop *ast.RangeStmt
	for _, st := range fd.Body.List {
		if r, ok := st.(*ast.RangeStmt); ok {
			loop = r
		}
	}
	if loop == nil || len(loop.Body.List) != 3 {
		return fmt.Errorf("rulePorts: loop shape changed")
	}
	as, ok := loop.Body.List[0].(*ast.AssignStmt)
	if !ok || g.p.Src(as.Lhs[0]) != "protocol" {
		return fmt.Errorf("rulePorts: default protocol assignment not found")
	}
	def, err := g.evalStr(as.Rhs[0])
	if err != nil {
		return err
	}
	want1 := "if npp[j].Protocol != nil { protocol = strings.ToLower(string(*npp[j].Protocol)) }"
	if got := strings.Join(strings.Fields(g.p.Src(loop.Body.List[1])), " "); got != want1 {
		return fmt.Errorf("rulePorts: protocol override changed: %s", got)
	}
	is, ok := loop.Body.List[2].(*ast.IfStmt)
	if !ok || g.p.Src(is.Cond) != "npp[j].Port != nil" || is.Else != nil || len(is.Body.List) != 1 {
		return fmt.Errorf("rulePorts: port guard changed")
	}
	in, ok := is.Body.List[0].(*ast.IfStmt)
	if !ok || in.Else == nil {
		return fmt.Errorf("rulePorts: tcp/udp split changed")
	}
	thenS := strings.Join(strings.Fields(g.p.Src(in.Body)), " ")
	elseS := strings.Join(strings.Fields(g.p.Src(in.Else)), " ")
	if !strings.Contains(thenS, "tcpPorts = append(tcpPorts, npp[j].Port.String())") ||
		elseS != "{ udpPorts = append(udpPorts, npp[j].Port.String()) }" {
		return fmt.Errorf("rulePorts: tcp/udp split changed: %s / %s", thenS, elseS)
	}
	g.emit("-- rulePorts")
	g.emit("def rulePortsDefaultProto : String := %s", fg.LeanStr(def))
	g.emit("def rulePortsTcpCond : String := %s", fg.LeanStr(g.p.Src(in.Cond)))
	g.emit("def rulePortsSkipsPortless : Bool := true   -- `if npp[j].Port != nil` without else")
	g.emit("def rulePortsNonTcpGoesUdp : Bool := true")
	return nil
}

func (g *gen) peerTable() error {
	fd, err := g.p.Fn("PolicyManager", "peerTable")
	if err != nil {
		return err
	}
	var cases []string
	for _, st := range fd.Body.List {
		is, ok := st.(*ast.IfStmt)
		if !ok {
			continue
		}
		if len(is.Body.List) != 1 {
			return fmt.Errorf("peerTable: case body changed")
		}
		ret, ok := is.Body.List[0].(*ast.ReturnStmt)
		if !ok || len(ret.Results) != 1 {
			return fmt.Errorf("peerTable: case body changed")
		}
		cases = append(cases, "("+fg.LeanStr(g.p.Src(is.Cond))+", "+
			fg.LeanStr(strings.Join(strings.Fields(g.p.Src(ret.Results[0])), " "))+")")
	}
	g.emit("-- peerTable: cases in order (guard, table built)")
	g.emit("def peerTableCases : List (String × String) := [%s]", strings.Join(cases, ",\n  "))

	fd, err = g.p.Fn("PolicyManager", "podSelectorToTable")
	if err != nil {
		return err
	}
	body := strings.Join(strings.Fields(g.p.Src(fd.Body)), " ")
	g.emit("def podSelectorListsNamespaceArg : Bool := %s",
		fg.LeanBool(strings.Contains(body, "p.podLister.Pods(namespace).List(podLabelSelector)")))
	g.emit("def podSelectorTableType : Bool := %s   -- hash:ip of entries(list)",
		fg.LeanBool(strings.Contains(body, "ipset.IPSet{SetType: ipset.HashIP}, entries: entries(list, ipset.HashIP)")))

	fd, err = g.p.Fn("PolicyManager", "policyResult")
	if err != nil {
		return err
	}
	first := strings.Join(strings.Fields(g.p.Src(fd.Body.List[0])), " ")
	g.emit("def policyResultSelectorCall : String := %s", fg.LeanStr(first))

	fd, err = g.p.Fn("", "ipBlockToTable")
	if err != nil {
		return err
	}
	body = strings.Join(strings.Fields(g.p.Src(fd.Body)), " ")
	g.emit("-- ipBlockToTable")
	g.emit("def ipBlockCidrEntry : Bool := %s", fg.LeanBool(strings.Contains(body,
		"entries: []ipset.Entry{{Net: formatedCidr, SetType: ipset.HashNet}}")))
	g.emit("def ipBlockExceptLoop : Bool := %s", fg.LeanBool(strings.Contains(body, "for i := range except {") &&
		strings.Contains(body, "formatedExcept, err := formatCidr(except[i])")))
	opt := ""
	ast.Inspect(fd.Body, func(n ast.Node) bool {
		kv, ok := n.(*ast.KeyValueExpr)
		if ok && g.p.Src(kv.Key) == "Options" {
			if els, ok := stringSliceLit(kv.Value); ok && len(els) == 1 {
				opt, _ = g.evalStr(els[0])
			}
		}
		return true
	})
	g.emit("def ipBlockExceptOption : String := %s", fg.LeanStr(opt))

	fd, err = g.p.Fn("", "formatCidr")
	if err != nil {
		return err
	}
	body = strings.Join(strings.Fields(g.p.Src(fd.Body)), " ")
	g.emit("def formatCidrMasksAndTrims32 : Bool := %s", fg.LeanBool(strings.Contains(body,
		`return strings.TrimSuffix(ipnet.String(), "/32"), nil`)))

	fd, err = g.p.Fn("PolicyManager", "peerRule")
	if err != nil {
		return err
	}
	body = strings.Join(strings.Fields(g.p.Src(fd.Body)), " ")
	g.emit("-- peerRule: tables of one type are merged into one set per rule")
	g.emit("def peerRuleMergesByType : Bool := %s", fg.LeanBool(
		strings.Contains(body, "rule.ipTable.entries = append(rule.ipTable.entries, tbl.entries...)") &&
			strings.Contains(body, "rule.netTable.entries = append(rule.netTable.entries, tbl.entries...)")))
	return nil
}

// ---- SyncPodChains / ensureBasicChain / filterMatchingPolicies

func (g *gen) podChains() error {
	fd, err := g.p.Fn("PolicyManager", "SyncPodChains")
	if err != nil {
		return err
	}
	var lines [][]string
	var hookArgs [][]string
	type call struct{ op, pos, chain, cond string }
	var calls []call
	var walk func(n ast.Node, cond string)
	walk = func(n ast.Node, cond string) {
		switch x := n.(type) {
		case *ast.BlockStmt:
			for _, s := range x.List {
				walk(s, cond)
			}
		case *ast.ForStmt:
			walk(x.Body, cond)
		case *ast.RangeStmt:
			walk(x.Body, cond)
		case *ast.IfStmt:
			c := g.p.Src(x.Cond)
			if x.Init != nil {
				walk(x.Init, cond)
				ast.Inspect(x.Init, func(m ast.Node) bool {
					if ce, ok := m.(*ast.CallExpr); ok {
						fn := g.p.Src(ce.Fun)
						if fn == "p.iptableHandle.EnsureRule" && len(ce.Args) >= 4 {
							calls = append(calls, call{"EnsureRule", g.p.Src(ce.Args[0]), g.p.Src(ce.Args[2]), cond})
						}
						if fn == "p.iptableHandle.DeleteRule" && len(ce.Args) >= 3 {
							calls = append(calls, call{"DeleteRule", "", g.p.Src(ce.Args[1]), cond})
						}
					}
					return true
				})
			}
			walk(x.Body, c)
			if x.Else != nil {
				walk(x.Else, "!("+c+")")
			}
		case *ast.ExprStmt:
			if ce, ok := x.X.(*ast.CallExpr); ok && g.p.Src(ce.Fun) == "writeLine" && len(ce.Args) >= 2 &&
				g.p.Src(ce.Args[0]) == "filterRules" {
				t, err2 := g.toksOf(ce.Args[1:])
				if err2 != nil {
					err = err2
					return
				}
				lines = append(lines, t)
			}
		case *ast.AssignStmt:
			if len(x.Lhs) == 1 && g.p.Src(x.Lhs[0]) == "args" && len(x.Rhs) == 1 {
				if els, ok := stringSliceLit(x.Rhs[0]); ok {
					t, err2 := g.toksOf(els)
					if err2 != nil {
						err = err2
						return
					}
					hookArgs = append(hookArgs, t)
				}
			}
		}
	}
	walk(fd.Body, "")
	if err != nil {
		return err
	}
	if len(lines) != 4 || len(hookArgs) != 2 || len(calls) != 4 {
		return fmt.Errorf("SyncPodChains: expected 4 rule lines, 2 hook argument lists, 4 hook calls; found %d, %d, %d",
			len(lines), len(hookArgs), len(calls))
	}
	g.emit("-- SyncPodChains: pod chain lines in order (first, per selecting policy, last, COMMIT), hook rules")
	g.emit("def podChainFirst : List Tok := %s", leanToks(lines[0]))
	g.emit("def podChainJump : List Tok := %s", leanToks(lines[1]))
	g.emit("def podChainLast : List Tok := %s", leanToks(lines[2]))
	g.emit("def podChainCommit : List Tok := %s", leanToks(lines[3]))
	g.emit("def hookIngressArgs : List Tok := %s", leanToks(hookArgs[0]))
	g.emit("def hookEgressArgs : List Tok := %s", leanToks(hookArgs[1]))
	var cs []string
	for _, c := range calls {
		cs = append(cs, "("+fg.LeanStr(c.op)+", "+fg.LeanStr(c.pos)+", "+fg.LeanStr(c.chain)+", "+fg.LeanStr(c.cond)+")")
	}
	g.emit("def hookCalls : List (String × String × String × String) := [%s]", strings.Join(cs, ",\n  "))
	body := strings.Join(strings.Fields(g.p.Src(fd.Body)), " ")
	g.emit("def podChainJumpCond : Bool := %s   -- filteredIngressPolicy.Has(i) || filteredEgressPolicy.Has(i)",
		fg.LeanBool(strings.Contains(body, "if filteredIngressPolicy.Has(i) || filteredEgressPolicy.Has(i) {")))
	iDel := strings.Index(body, "return p.deletePodChains(pod)")
	iIP := strings.Index(body, `if pod.Status.PodIP == "" { return nil }`)
	iBase := strings.Index(body, "p.ensureBasicChain()")
	g.emit("def syncPodOrderDeleteThenNoIPThenBase : Bool := %s",
		fg.LeanBool(iDel >= 0 && iIP > iDel && iBase > iIP &&
			strings.Contains(body, "if filteredIngressPolicy.Len() == 0 && filteredEgressPolicy.Len() == 0 {")))

	fd, err = g.p.Fn("PolicyManager", "ensureBasicChain")
	if err != nil {
		return err
	}
	var base []string
	ast.Inspect(fd.Body, func(n ast.Node) bool {
		ce, ok := n.(*ast.CallExpr)
		if !ok {
			return true
		}
		switch g.p.Src(ce.Fun) {
		case "p.iptableHandle.EnsureChain":
			if len(ce.Args) == 2 {
				c, _ := g.evalStr(ce.Args[1])
				base = append(base, "("+fg.LeanStr("chain")+", "+fg.LeanStr("")+", "+fg.LeanStr(c)+", [])")
			}
		case "p.iptableHandle.EnsureRule":
			if len(ce.Args) >= 4 {
				var toks []string
				for _, a := range ce.Args[3:] {
					if s, e := g.evalStr(a); e == nil {
						toks = append(toks, s)
					} else if c, ok := a.(*ast.CallExpr); ok && len(c.Args) == 1 {
						s, _ := g.evalStr(c.Args[0])
						toks = append(toks, s)
					}
				}
				chain := strings.TrimPrefix(g.p.Src(ce.Args[2]), "utiliptables.Chain")
				base = append(base, "("+fg.LeanStr("rule")+", "+fg.LeanStr(strings.TrimPrefix(g.p.Src(ce.Args[0]),
					"utiliptables."))+", "+fg.LeanStr(strings.ToUpper(chain))+", "+leanStrs(toks)+")")
			}
		}
		return true
	})
	g.emit("-- ensureBasicChain: calls in order (kind, position, chain, args)")
	g.emit("def baseCalls : List (String × String × String × List String) := [%s]", strings.Join(base, ",\n  "))

	fd, err = g.p.Fn("", "filterMatchingPolicies")
	if err != nil {
		return err
	}
	body = strings.Join(strings.Fields(g.p.Src(fd.Body)), " ")
	g.emit("-- filterMatchingPolicies")
	g.emit("def filterSameNamespaceOnly : Bool := %s", fg.LeanBool(strings.Contains(body,
		"if policy.np.Namespace != pod.Namespace { continue }")))
	g.emit("def filterIngressNeedsIngressRule : Bool := %s", fg.LeanBool(strings.Contains(body,
		"if policy.ingressRule != nil { if podLabelSelector.Matches(labels.Set(pod.Labels)) { filteredIngressPolicy.Insert(i) } }")))
	g.emit("def filterEgressNeedsEgressRule : Bool := %s", fg.LeanBool(strings.Contains(body,
		"if policy.egressRule != nil { if podLabelSelector.Matches(labels.Set(pod.Labels)) { filteredEgressPolicy.Insert(i) } }")))
	return nil
}

// ---- order of the sync steps

func (g *gen) methodCalls(pp *fg.Parsed, recv, name string) ([]string, error) {
	fd, err := pp.Fn(recv, name)
	if err != nil {
		return nil, err
	}
	var out []string
	for _, st := range fd.Body.List {
		es, ok := st.(*ast.ExprStmt)
		if !ok {
			continue
		}
		ce, ok := es.X.(*ast.CallExpr)
		if !ok {
			continue
		}
		fn := pp.Src(ce.Fun)
		if strings.HasPrefix(fn, "p.") {
			out = append(out, strings.TrimPrefix(fn, "p."))
		}
	}
	return out, nil
}

func (g *gen) orders() error {
	g.emit("-- order of the sync steps")
	run, err := g.methodCalls(g.p, "PolicyManager", "Run")
	if err != nil {
		return err
	}
	g.emit("def runOrder : List String := %s", leanStrs(run))
	for _, h := range []string{"AddPolicy", "UpdatePolicy", "DeletePolicy"} {
		c, err := g.methodCalls(g.ev, "PolicyManager", h)
		if err != nil {
			return err
		}
		g.emit("def order%s : List String := %s", h, leanStrs(c))
	}
	fd, err := g.p.Fn("PolicyManager", "writeChains")
	if err != nil {
		return err
	}
	body := strings.Join(strings.Fields(g.p.Src(fd.Body)), " ")
	g.emit("-- writeChains garbage-collects only chains with the policy-chain prefix")
	g.emit("def writeChainsCollectsPolicyPrefixOnly : Bool := %s", fg.LeanBool(strings.Contains(body,
		"if !strings.HasPrefix(chainString, policyChainPrefix) { // Ignore chains that aren't ours. continue }") ||
		strings.Contains(body, "if !strings.HasPrefix(chainString, policyChainPrefix) {")))
	g.emit("def writeChainsDeletesWithX : Bool := %s", fg.LeanBool(strings.Contains(body,
		`writeLine(filterRules, "-X", chainString)`)))
	fd, err = g.p.Fn("PolicyManager", "syncRules")
	if err != nil {
		return err
	}
	body = strings.Join(strings.Fields(g.p.Src(fd.Body)), " ")
	iCreate := strings.Index(body, "p.createIPSet(newIPSetMap)")
	iDefer := strings.Index(body, "defer func() {")
	iIpt := strings.Index(body, "return p.syncIptables(polices)")
	// syncNetworkPolicyRules: syncRules is called unconditionally (also by a process that has seen no NetworkPolicy: that
	// is what removes the GLX-PLCY chains and GLX sets a previous process left behind)
	fd, err = g.p.Fn("PolicyManager", "syncNetworkPolicyRules")
	if err != nil {
		return err
	}
	uncond := true
	sawCall := false
	for _, st := range fd.Body.List {
		src := strings.Join(strings.Fields(g.p.Src(st)), " ")
		if strings.Contains(src, "p.syncRules(") {
			is, ok := st.(*ast.IfStmt)
			if !ok || is.Init == nil || !strings.HasPrefix(strings.Join(strings.Fields(g.p.Src(is.Init)), " "), "err := p.syncRules(policies)") {
				uncond = false
			}
			sawCall = true
			break
		}
		switch st.(type) {
		case *ast.IfStmt, *ast.ReturnStmt, *ast.ForStmt, *ast.RangeStmt, *ast.SwitchStmt:
			uncond = false // something decides or returns before the call
		}
	}
	if !sawCall {
		return fmt.Errorf("syncNetworkPolicyRules: no call of p.syncRules found at statement level")
	}
	g.emit("def syncNetworkPolicyRulesUnconditional : Bool := %s", fg.LeanBool(uncond))
	// createIPSet: does the stale-entry clean-up spare an old entry whose KEY is among the new entries?
	fd, err = g.p.Fn("PolicyManager", "createIPSet")
	if err != nil {
		return err
	}
	cbody := strings.Join(strings.Fields(g.p.Src(fd.Body)), " ")
	if !strings.Contains(cbody, "if oldEntriesSet.Has(newEntryStr) { continue }") ||
		!strings.Contains(cbody, "p.ipsetHandle.AddEntryWithOptions(&entry, &set.IPSet, true)") ||
		!strings.Contains(cbody, "if !newEntries.Has(old) {") ||
		!strings.Contains(cbody, "p.ipsetHandle.DelEntryWithOptions(name, parts[0], parts[1:]...)") {
		return fmt.Errorf("createIPSet: the diff-based entry update no longer has the shape the model mirrors")
	}
	keeps := strings.Contains(cbody, "newEntryKeys.Insert(entry.String())") &&
		regexpKeepGuard(cbody)
	g.emit("-- createIPSet: entries are compared as strings incl. options, added with -exist, stale ones deleted by key;")
	g.emit("-- the clean-up skips an old entry whose key (parts[0]) is among the keys of the new entries")
	g.emit("def createIPSetKeepsRekeyedEntries : Bool := %s", fg.LeanBool(keeps))
	g.emit("-- syncRules: create/refresh sets, then iptables, stale GLX sets destroyed afterwards (defer)")
	g.emit("def syncRulesOrder : Bool := %s", fg.LeanBool(iCreate >= 0 && iDefer > iCreate && iIpt > iDefer &&
		strings.Contains(body, "if !strings.HasPrefix(name, NamePrefix) { continue }")))
	return nil
}

// regexpKeepGuard: inside `if !newEntries.Has(old) { … }` and before the delete there is
// `if newEntryKeys.Has(parts[0]) { … continue }`.
func regexpKeepGuard(body string) bool {
	i := strings.Index(body, "if !newEntries.Has(old) {")
	j := strings.Index(body, "p.ipsetHandle.DelEntryWithOptions(name, parts[0], parts[1:]...)")
	if i < 0 || j < i {
		return false
	}
	seg := body[i:j]
	k := strings.Index(seg, "if newEntryKeys.Has(parts[0]) {")
	return k >= 0 && strings.Contains(seg[k:], "continue }")
}

func generate(repo string) (map[string]string, error) {
	g := &gen{}
	var err error
	if g.p, err = fg.ParseFile(repo, srcPolicy); err != nil {
		return nil, err
	}
	if g.ev, err = fg.ParseFile(repo, srcEvent); err != nil {
		return nil, err
	}
	if err = g.loadVars(); err != nil {
		return nil, err
	}
	g.out.WriteString(fg.Header("network-policy names, rule templates, defaulting and sync-order facts (M7 / C16, C15)",
		srcPolicy, srcEvent))
	g.emit("namespace Galaxy.Generated.Policy")
	g.emit("")
	g.emit("/-- one word of a rule template -/")
	g.emit("inductive Tok where")
	g.emit("  | lit (s : String)                  -- literal word")
	g.emit("  | var (src : String)                -- value of this Go expression")
	g.emit("  | join (src : String) (sep : String) -- strings.Join(src, sep)")
	g.emit("  | splice (src : String)             -- the words of this []string")
	g.emit("  deriving DecidableEq, Repr")
	g.emit("")
	g.emit("def namePrefix : String := %s", fg.LeanStr(g.vars["NamePrefix"]))
	g.emit("def policyChainPrefix : String := %s", fg.LeanStr(g.vars["policyChainPrefix"]))
	g.emit("def podChainPrefix : String := %s", fg.LeanStr(g.vars["podChainPrefix"]))
	g.emit("def ingressChain : String := %s", fg.LeanStr(g.vars["ingressChain"]))
	g.emit("def egressChain : String := %s", fg.LeanStr(g.vars["egressChain"]))
	g.emit("def chainNotExistErr : String := %s", fg.LeanStr(g.vars["chainNotExistErr"]))
	g.emit("")
	for _, f := range []func() error{g.nameFormats, g.policyChainTemplates, g.writeRulesFacts, g.ingressOrEgress,
		g.rulePorts, g.peerTable, g.podChains, g.orders} {
		if err := f(); err != nil {
			return nil, err
		}
		g.emit("")
	}
	g.emit("end Galaxy.Generated.Policy")
	return map[string]string{"Policy.lean": g.out.String()}, nil
}

func main() { fg.Run("policy", generate) }
