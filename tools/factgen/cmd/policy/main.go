// factgen policy: regenerates lean/Galaxy/Generated/Policy.lean from /repo/pkg/policy/{policy,event}.go
//
// Purely syntactic (go/ast), on the CANONICAL form of every function (norm.go: harmless/NORMALISE.md), so that
// behaviour-preserving rewrites of the source do not change what is emitted.  Emits, as Lean defs, everything model M7 (Galaxy.Policy) and the properties
// C16 / C15 use as a literal or as a structural fact:
//   - name prefixes (GLX, GLX-PLCY, GLX-POD, GLX-INGRESS, GLX-EGRESS), set / chain name formats, hash pipeline
//     and truncation of nameHash / tableNameHash;
//   - the rule templates of writePolicyChainRules (with their guards), of SyncPodChains and the base jumps of
//     ensureBasicChain, as token lists; which set names writeRules passes as source / destination;
//   - the ingressOrEgress defaulting (as Lean functions of the numbers of ingress / egress rules);
//   - rulePorts shape (default protocol, port-less entries skipped, non-tcp goes to the udp list);
//   - peerTable precedence and the calls it makes; the nomatch option of ipBlockToTable;
//   - the order of the sync steps in Run and in the policy event handlers.
//
// Exits non-zero when a function no longer has the shape it knows how to translate.
package main

import (
	"fmt"
	"go/ast"
	"go/token"
	"sort"
	"strconv"
	"strings"

	"factgen/fg"
)

const (
	srcPolicy = "pkg/policy/policy.go"
	srcEvent  = "pkg/policy/event.go"
)

type gen struct {
	p, ev *fg.Parsed
	nz    *Normaliser
	nfs   map[string]*NF
	vars  map[string]string
	out   strings.Builder
}

// fn: canonical form of a function of the package (cached).
func (g *gen) fn(name string) (*NF, error) {
	if nf, ok := g.nfs[name]; ok {
		return nf, nil
	}
	nf, err := g.nz.NormaliseByName(name)
	if err != nil {
		return nil, fmt.Errorf("%s: %v", name, err)
	}
	g.nfs[name] = nf
	return nf, nil
}

func (g *gen) emit(format string, a ...interface{}) { fmt.Fprintf(&g.out, format+"\n", a...) }

func leanStrs(xs []string) string {
	ys := make([]string, len(xs))
	for i, x := range xs {
		ys[i] = fg.LeanStr(x)
	}
	return "[" + strings.Join(ys, ", ") + "]"
}

// ---- package-level string variables: literals, X + "lit", T(X + "lit")

func (g *gen) evalStr(e ast.Expr) (string, error) {
	switch x := e.(type) {
	case *ast.BasicLit:
		if x.Kind == token.STRING {
			return strconv.Unquote(x.Value)
		}
	case *ast.Ident:
		if v, ok := g.vars[x.Name]; ok {
			return v, nil
		}
	case *ast.ParenExpr:
		return g.evalStr(x.X)
	case *ast.BinaryExpr:
		if x.Op == token.ADD {
			a, err := g.evalStr(x.X)
			if err != nil {
				return "", err
			}
			b, err := g.evalStr(x.Y)
			if err != nil {
				return "", err
			}
			return a + b, nil
		}
	case *ast.CallExpr: // type conversion utiliptables.Chain(...)
		if len(x.Args) == 1 && (strings.HasSuffix(txt(x.Fun), "Chain") || txt(x.Fun) == "string") {
			return g.evalStr(x.Args[0])
		}
	}
	return "", fmt.Errorf("%s: cannot evaluate string expression %s", srcPolicy, txt(e))
}

func (g *gen) loadVars() error {
	g.vars = map[string]string{}
	for _, d := range g.p.File.Decls {
		gd, ok := d.(*ast.GenDecl)
		if !ok || gd.Tok != token.VAR {
			continue
		}
		for _, s := range gd.Specs {
			vs := s.(*ast.ValueSpec)
			for i, n := range vs.Names {
				if i < len(vs.Values) {
					if v, err := g.evalStr(vs.Values[i]); err == nil {
						g.vars[n.Name] = v
					}
				}
			}
		}
	}
	for _, want := range []string{"NamePrefix", "policyChainPrefix", "podChainPrefix", "ingressChain", "egressChain",
		"chainNotExistErr"} {
		if _, ok := g.vars[want]; !ok {
			return fmt.Errorf("%s: package variable %s not found / not a string expression", srcPolicy, want)
		}
	}
	return nil
}

// ---- token templates

// stripConv removes string(…) / …Chain(…) conversions around an expression.
func stripConv(e ast.Expr) ast.Expr {
	for {
		e = stripParens(e)
		c, ok := e.(*ast.CallExpr)
		if !ok || len(c.Args) != 1 || c.Ellipsis != token.NoPos {
			return e
		}
		if f := txt(c.Fun); f == "string" || strings.HasSuffix(f, ".Chain") {
			e = c.Args[0]
			continue
		}
		return e
	}
}

// tokOf renders one word of a rule template: Tok.lit "x" | Tok.var "canonical Go expression" | Tok.join "src" "sep".
// ren maps canonical texts to the names used in the generated file (chunk bounds).
func (g *gen) tokOf(e ast.Expr, ren map[string]string) (string, error) {
	r := func(s string) string {
		if t, ok := ren[s]; ok {
			return t
		}
		return s
	}
	e = stripConv(e)
	switch x := e.(type) {
	case *ast.BasicLit:
		if x.Kind == token.STRING {
			s, err := strconv.Unquote(x.Value)
			if err != nil {
				return "", err
			}
			return "Tok.lit " + fg.LeanStr(s), nil
		}
	case *ast.Ident:
		if v, ok := g.vars[x.Name]; ok {
			return "Tok.lit " + fg.LeanStr(v), nil
		}
		return "Tok.var " + fg.LeanStr(r(x.Name)), nil
	case *ast.SelectorExpr:
		return "Tok.var " + fg.LeanStr(r(txt(x))), nil
	case *ast.CallExpr:
		if txt(x.Fun) == "strings.Join" && len(x.Args) == 2 {
			if sep, ok := strLit(x.Args[1]); ok {
				return "Tok.join " + fg.LeanStr(r(txt(x.Args[0]))) + " " + fg.LeanStr(sep), nil
			}
		}
		if g.nz.pureExpr(x) {
			return "Tok.var " + fg.LeanStr(r(txt(x))), nil
		}
	}
	return "", fmt.Errorf("%s: cannot translate template word %s", srcPolicy, txt(e))
}

func (g *gen) toksOf(es []ast.Expr, ren map[string]string) ([]string, error) {
	var out []string
	for _, e := range es {
		t, err := g.tokOf(e, ren)
		if err != nil {
			return nil, err
		}
		out = append(out, t)
	}
	return out, nil
}

func leanToks(ts []string) string { return "[" + strings.Join(ts, ", ") + "]" }

// stringSliceLit returns the elements of a `[]string{...}` composite literal.
func stringSliceLit(e ast.Expr) ([]ast.Expr, bool) {
	cl, ok := stripParens(e).(*ast.CompositeLit)
	if !ok {
		return nil, false
	}
	at, ok := cl.Type.(*ast.ArrayType)
	if !ok || at.Len != nil {
		return nil, false
	}
	if id, ok := at.Elt.(*ast.Ident); !ok || id.Name != "string" {
		return nil, false
	}
	return cl.Elts, true
}

// sliceToks evaluates a []string-valued expression built from literals, known locals and append.
func (g *gen) sliceToks(e ast.Expr, env map[string][]string, ren map[string]string) ([]string, bool, error) {
	e = stripParens(e)
	if els, ok := stringSliceLit(e); ok {
		t, err := g.toksOf(els, ren)
		return t, true, err
	}
	if id, ok := e.(*ast.Ident); ok {
		if t, ok := env[id.Name]; ok {
			return append([]string{}, t...), true, nil
		}
		return nil, false, nil
	}
	if c, ok := e.(*ast.CallExpr); ok && txt(c.Fun) == "append" && len(c.Args) >= 1 {
		base, ok, err := g.sliceToks(c.Args[0], env, ren)
		if !ok || err != nil {
			return nil, ok, err
		}
		if c.Ellipsis != token.NoPos {
			if len(c.Args) != 2 {
				return nil, false, nil
			}
			more, ok, err := g.sliceToks(c.Args[1], env, ren)
			if !ok || err != nil {
				return nil, ok, err
			}
			return append(base, more...), true, nil
		}
		more, err := g.toksOf(c.Args[1:], ren)
		return append(base, more...), true, err
	}
	return nil, false, nil
}

// writeLineToks: the words of `writeLine(buf, …)`.
func (g *gen) writeLineToks(c *ast.CallExpr, buf string, env map[string][]string, ren map[string]string) ([]string, bool, error) {
	if c == nil || txt(c.Fun) != "writeLine" || len(c.Args) < 1 || txt(c.Args[0]) != buf {
		return nil, false, nil
	}
	if c.Ellipsis != token.NoPos {
		if len(c.Args) != 2 {
			return nil, false, fmt.Errorf("unexpected %s", txt(c))
		}
		t, ok, err := g.sliceToks(c.Args[1], env, ren)
		if err == nil && !ok {
			err = fmt.Errorf("cannot evaluate the words of %s", txt(c))
		}
		return t, true, err
	}
	t, err := g.toksOf(c.Args[1:], ren)
	return t, true, err
}

type plcyLine struct {
	guards []string // conditions (conjuncts) under which the line is written
	loop   string   // "" or the ports parameter the chunk loop runs over
	toks   []string
}

// chunkLoop recognises `for i := 0; i < len(P); i += C { e := i + C; if e > len(P) { e = len(P) }; … }`
// (canonical form; names free) and returns P, the text of C, the loop variable, the bound variable and the rest of the
// body.
func chunkLoop(f *ast.ForStmt) (ports, step, iv, ev string, rest []ast.Stmt, ok bool) {
	as, isAs := f.Init.(*ast.AssignStmt)
	if !isAs || as.Tok != token.DEFINE || len(as.Lhs) != 1 || len(as.Rhs) != 1 || txt(as.Rhs[0]) != "0" {
		return
	}
	iv = txt(as.Lhs[0])
	c, isB := f.Cond.(*ast.BinaryExpr)
	if !isB || c.Op != token.LSS || txt(c.X) != iv {
		return
	}
	ln, isC := c.Y.(*ast.CallExpr)
	if !isC || txt(ln.Fun) != "len" || len(ln.Args) != 1 {
		return
	}
	ports = txt(ln.Args[0])
	post, isAs := f.Post.(*ast.AssignStmt)
	if !isAs || post.Tok != token.ADD_ASSIGN || txt(post.Lhs[0]) != iv {
		return
	}
	step = txt(post.Rhs[0])
	if len(f.Body.List) < 3 {
		return
	}
	d, isAs := f.Body.List[0].(*ast.AssignStmt)
	if !isAs || d.Tok != token.DEFINE || len(d.Lhs) != 1 || txt(d.Rhs[0]) != iv+" + "+step {
		return
	}
	ev = txt(d.Lhs[0])
	if txt(f.Body.List[1]) != "if "+ev+" > len("+ports+") { "+ev+" = len("+ports+") }" {
		return
	}
	return ports, step, iv, ev, f.Body.List[2:], true
}

func (g *gen) policyChainTemplates() error {
	nf, err := g.fn("writePolicyChainRules")
	if err != nil {
		return err
	}
	params := paramNames(nf.Decl)
	g.emit("-- writePolicyChainRules(%s): parameters by POSITION (canonical names)", strings.Join(params, ", "))
	g.emit("def plcyParams : List String := %s", leanStrs(params))
	if len(nf.Decl.Body.List) != 1 {
		return fmt.Errorf("writePolicyChainRules: expected a single outer loop")
	}
	outer, ok := nf.Decl.Body.List[0].(*ast.RangeStmt)
	if !ok || len(outer.Body.List) != 1 || outer.Value == nil {
		return fmt.Errorf("writePolicyChainRules: expected `for range` over the source tables")
	}
	inner, ok := outer.Body.List[0].(*ast.RangeStmt)
	if !ok || inner.Value == nil {
		return fmt.Errorf("writePolicyChainRules: expected nested `for range` over the destination tables")
	}
	g.emit("def plcyOuterLoop : String × String := (%s, %s)", fg.LeanStr(txt(outer.Value)), fg.LeanStr(txt(outer.X)))
	g.emit("def plcyInnerLoop : String × String := (%s, %s)", fg.LeanStr(txt(inner.Value)), fg.LeanStr(txt(inner.X)))
	var lines []plcyLine
	chunk := int64(-1) // -1 = not seen yet, 0 = no chunking (one rule per protocol), n = chunks of at most n ports
	var interp func(list []ast.Stmt, env map[string][]string, guards []string, loop string, ren map[string]string) error
	interp = func(list []ast.Stmt, env map[string][]string, guards []string, loop string, ren map[string]string) error {
		outer := map[string]bool{} // word lists that exist before this block: inside a chunk loop they must not grow
		for k := range env {
			outer[k] = true
		}
		for _, st := range list {
			switch s := st.(type) {
			case *ast.AssignStmt:
				if len(s.Lhs) == 1 && len(s.Rhs) == 1 {
					if id, ok := s.Lhs[0].(*ast.Ident); ok {
						if loop != "" && s.Tok != token.DEFINE && outer[id.Name] {
							return fmt.Errorf("writePolicyChainRules: the words %s are carried from one chunk of ports to the next", id.Name)
						}
						t, ok, err := g.sliceToks(s.Rhs[0], env, ren)
						if err != nil {
							return err
						}
						if ok {
							env[id.Name] = t
							continue
						}
					}
				}
				return fmt.Errorf("writePolicyChainRules: unexpected statement %s", txt(s))
			case *ast.ExprStmt:
				c, _ := s.X.(*ast.CallExpr)
				t, ok, err := g.writeLineToks(c, params[0], env, ren)
				if err != nil {
					return fmt.Errorf("writePolicyChainRules: %v", err)
				}
				if !ok {
					return fmt.Errorf("writePolicyChainRules: unexpected statement %s", txt(s))
				}
				lines = append(lines, plcyLine{append([]string{}, guards...), loop, t})
			case *ast.IfStmt:
				if s.Else != nil {
					return fmt.Errorf("writePolicyChainRules: unexpected else in %s", txt(s))
				}
				if len(s.Body.List) == 1 && txt(s.Body.List[0]) == "continue" && loop == "" {
					guards = append(append([]string{}, guards...), conjuncts(g.nz, negate(copyExpr(s.Cond)))...)
					continue
				}
				cp := map[string][]string{}
				for k, v := range env {
					cp[k] = v
				}
				if err := interp(s.Body.List, cp, append(append([]string{}, guards...), conjuncts(g.nz, s.Cond)...), loop, ren); err != nil {
					return err
				}
			case *ast.ForStmt:
				ports, step, iv, ev, rest, ok := chunkLoop(s)
				if !ok || loop != "" {
					return fmt.Errorf("writePolicyChainRules: loop is not a chunk loop over a port list: %s", txt(s))
				}
				var n int64
				if v, err := strconv.ParseInt(step, 0, 64); err == nil {
					n = v
				} else if n, err = g.p.ConstInt(step); err != nil {
					return err
				}
				if n <= 0 || (chunk >= 0 && chunk != n) {
					return fmt.Errorf("writePolicyChainRules: tcp and udp templates are not of the same shape")
				}
				chunk = n
				cp := map[string][]string{}
				for k, v := range env {
					cp[k] = v
				}
				if err := interp(rest, cp, guards, ports, map[string]string{ports + "[" + iv + ":" + ev + "]": ports + "[i:end]"}); err != nil {
					return err
				}
			default:
				return fmt.Errorf("writePolicyChainRules: unexpected statement %s", txt(st))
			}
		}
		return nil
	}
	if err := interp(inner.Body.List, map[string][]string{}, nil, "", nil); err != nil {
		return err
	}
	if len(lines) != 3 {
		return fmt.Errorf("writePolicyChainRules: expected three rule templates (tcp, udp, all), found %d", len(lines))
	}
	var guards []string
	for i, name := range []string{"plcyTcp", "plcyUdp", "plcyAll"} {
		l := lines[i]
		sort.Strings(l.guards)
		switch {
		case i < 2 && l.loop == params[5+i] && len(l.guards) == 0:
			guards = append(guards, "for i := 0; i < len("+l.loop+"); i += maxMultiportPorts")
		case i < 2 && l.loop == "" && len(l.guards) == 1:
			if chunk > 0 {
				return fmt.Errorf("writePolicyChainRules: tcp and udp templates are not of the same shape")
			}
			chunk = 0
			guards = append(guards, l.guards[0])
		case i == 2 && l.loop == "":
			guards = append(guards, strings.Join(l.guards, " && "))
		default:
			return fmt.Errorf("writePolicyChainRules: template %d is written under unexpected conditions (loop %q, guards %v)",
				i, l.loop, l.guards)
		}
		g.emit("def %s : List Tok := %s", name, leanToks(l.toks))
	}
	if chunk < 0 {
		chunk = 0
	}
	g.emit("-- ports per emitted rule: 0 = all ports of a protocol in ONE rule, n = chunks of at most n (multiport takes 15)")
	g.emit("def multiportChunk : Nat := %d", chunk)
	g.emit("def plcyGuards : List String := %s", leanStrs(guards))
	return nil
}

// writeRules: the arguments of the two writePolicyChainRules calls and the table-name lists built before them.
func (g *gen) writeRulesFacts() error {
	nf, err := g.fn("writeRules")
	if err != nil {
		return err
	}
	evs := events(g.nz, nf.Decl.Body.List, nil)
	type wcall struct {
		args    []string
		appends []string
	}
	var calls []wcall
	for _, e := range evs {
		if e.call == nil || txt(e.call.Fun) != "writePolicyChainRules" || len(e.call.Args) != 7 {
			continue
		}
		dir, role, want := 3, "srcTableNames", "range policy.ingressRule.srcRules"
		if len(calls) == 1 {
			dir, role, want = 4, "dstTableNames", "range policy.egressRule.dstRules"
		}
		if !e.has(want) || !e.has("range polices") {
			return fmt.Errorf("writeRules: call %d of writePolicyChainRules is not inside the expected loops (%v)", len(calls), e.ctx)
		}
		wc := wcall{}
		local := ""
		if id, ok := e.call.Args[dir].(*ast.Ident); ok {
			local = id.Name
		}
		for i, a := range e.call.Args {
			if i == dir && local != "" {
				wc.args = append(wc.args, role)
			} else {
				wc.args = append(wc.args, txt(a))
			}
		}
		// the appends to the table-name list, in order (same loop iteration)
		for _, a := range evs {
			as, ok := a.stmt.(*ast.AssignStmt)
			if !ok || local == "" || len(as.Lhs) != 1 || txt(as.Lhs[0]) != local || !a.has(want) || a.call == nil ||
				txt(a.call.Fun) != "append" || len(a.call.Args) != 2 || txt(a.call.Args[0]) != local {
				continue
			}
			wc.appends = append(wc.appends, role+" = append("+role+", "+txt(a.call.Args[1])+")")
		}
		calls = append(calls, wc)
	}
	if len(calls) != 2 {
		return fmt.Errorf("writeRules: expected two writePolicyChainRules calls, found %d", len(calls))
	}
	g.emit("-- writeRules: arguments of the ingress / egress writePolicyChainRules calls; table-name appends in order")
	g.emit("def writeRulesIngressCall : List String := %s", leanStrs(calls[0].args))
	g.emit("def writeRulesEgressCall : List String := %s", leanStrs(calls[1].args))
	g.emit("def writeRulesAppends : List String := %s", leanStrs(append(calls[0].appends, calls[1].appends...)))
	return nil
}

// ---- set / chain names and hashes

// nameAssigns: `X.Name = fmt.Sprintf(format, args…)` statements among the events: (X, format, args).
func nameAssigns(evs []event, need string) [][3]string {
	var out [][3]string
	for _, e := range evs {
		as, ok := e.stmt.(*ast.AssignStmt)
		if !ok || len(as.Lhs) != 1 || e.call == nil || txt(e.call.Fun) != "fmt.Sprintf" || len(e.call.Args) < 1 ||
			!strings.HasSuffix(txt(as.Lhs[0]), ".Name") || (need != "" && !e.has(need)) {
			continue
		}
		f, ok := strLit(e.call.Args[0])
		if !ok {
			continue
		}
		var args []string
		for _, a := range e.call.Args[1:] {
			args = append(args, txt(a))
		}
		out = append(out, [3]string{txt(as.Lhs[0]), f, strings.Join(args, ",")})
	}
	return out
}

func (g *gen) nameFormats() error {
	nf, err := g.fn("policyResult")
	if err != nil {
		return err
	}
	evs := events(g.nz, nf.Decl.Body.List, nil)
	hash := "tableNameHash(fmt.Sprintf(\"%s_%s\", np.Name, np.Namespace))"
	find := func(xs [][3]string, lhs, args string) (string, error) {
		for _, x := range xs {
			if x[0] == lhs && x[2] == args {
				return x[1], nil
			}
		}
		return "", fmt.Errorf("policyResult: no `%s = fmt.Sprintf(_, %s)` where expected", lhs, args)
	}
	// the ingress / egress flags are the two results of ingressOrEgress(np); the rules of a direction are named inside
	// the loop over that direction's rules, under that direction's flag
	flags := false
	for _, e := range evs {
		if as, ok := e.stmt.(*ast.AssignStmt); ok && len(as.Lhs) == 2 && e.call != nil && txt(e.call) == "ingressOrEgress(np)" &&
			txt(as.Lhs[0]) == "ingress" && txt(as.Lhs[1]) == "egress" && onlyErrGuards(e.ctx) {
			flags = true
		}
	}
	if !flags {
		return fmt.Errorf("policyResult: `ingress, egress := ingressOrEgress(np)` not found at the top level")
	}
	var top, ing, egr [][3]string
	for _, x := range nameAssigns(evs, "") {
		top = append(top, x)
	}
	for _, e := range evs {
		one := nameAssigns([]event{e}, "")
		if len(one) == 0 {
			continue
		}
		switch {
		case e.has("ingress") && e.has("range np.Spec.Ingress") && !e.has("egress"):
			ing = append(ing, one[0])
		case e.has("egress") && e.has("range np.Spec.Egress") && !e.has("ingress"):
			egr = append(egr, one[0])
		}
	}
	sel, err := find(top, "tbl.Name", "NamePrefix,"+hash)
	if err != nil {
		return err
	}
	sip, err := find(ing, "rule.ipTable.Name", "NamePrefix,i,"+hash)
	if err != nil {
		return err
	}
	snet, err := find(ing, "rule.netTable.Name", "NamePrefix,i,"+hash)
	if err != nil {
		return err
	}
	dip, err := find(egr, "rule.ipTable.Name", "NamePrefix,i,"+hash)
	if err != nil {
		return err
	}
	dnet, err := find(egr, "rule.netTable.Name", "NamePrefix,i,"+hash)
	if err != nil {
		return err
	}
	// `rule` is what peerRule compiles from the ports and the peers of rule i of that direction
	okRule := 0
	for _, e := range evs {
		if as, ok := e.stmt.(*ast.AssignStmt); ok && len(as.Lhs) == 1 && txt(as.Lhs[0]) == "rule" && e.call != nil {
			if (txt(e.call) == "p.peerRule(ir.Ports, ir.From)" && e.has("range np.Spec.Ingress")) ||
				(txt(e.call) == "p.peerRule(ir.Ports, ir.To)" && e.has("range np.Spec.Egress")) {
				okRule++
			}
		}
	}
	if okRule != 2 {
		return fmt.Errorf("policyResult: the rules are no longer compiled by p.peerRule(ir.Ports, ir.From / ir.To) per rule")
	}
	g.emit("-- policyResult: set names; args are (NamePrefix, npNameHash) resp. (NamePrefix, i, npNameHash)")
	g.emit("def fmtSelSet : String := %s", fg.LeanStr(sel))
	g.emit("def fmtIngressIpSet : String := %s", fg.LeanStr(sip))
	g.emit("def fmtIngressNetSet : String := %s", fg.LeanStr(snet))
	g.emit("def fmtEgressIpSet : String := %s", fg.LeanStr(dip))
	g.emit("def fmtEgressNetSet : String := %s", fg.LeanStr(dnet))
	g.emit("def setHashInput : String := %s", fg.LeanStr(hash))
	// the ingress / egress blocks must hang the tables on the shared selector table
	if !strings.Contains(nf.Text, "&ingressRule{dstIPTable: tbl}") || !strings.Contains(nf.Text, "&egressRule{srcIPTable: tbl}") {
		return fmt.Errorf("policyResult: ingress / egress rules no longer share the selector table `tbl`")
	}
	g.emit("def selSetShared : Bool := true")

	for _, fn := range []string{"policyChainName", "podChainName"} {
		nf, err := g.fn(fn)
		if err != nil {
			return err
		}
		ret, ok := nf.Decl.Body.List[0].(*ast.ReturnStmt)
		if len(nf.Decl.Body.List) != 1 || !ok || len(ret.Results) != 1 {
			return fmt.Errorf("%s: expected a single return", fn)
		}
		g.emit("def %sExpr : String := %s", fn, fg.LeanStr(txt(ret.Results[0])))
	}
	for _, fn := range []string{"nameHash", "tableNameHash"} {
		nf, err := g.fn(fn)
		if err != nil {
			return err
		}
		var lines []string
		for _, st := range nf.Decl.Body.List {
			lines = append(lines, txt(st))
		}
		g.emit("def %sBody : List String := %s", fn, leanStrs(lines))
	}
	return nil
}

// ---- ingressOrEgress

func (g *gen) boolExpr(e ast.Expr) (string, error) {
	switch s := txt(e); s {
	case "true":
		return "true", nil
	case "false":
		return "false", nil
	case "len(np.Spec.Egress) > 0", "len(np.Spec.Egress) != 0":
		return "decide (nEgress > 0)", nil
	case "len(np.Spec.Ingress) > 0", "len(np.Spec.Ingress) != 0":
		return "decide (nIngress > 0)", nil
	default:
		return "", fmt.Errorf("ingressOrEgress: cannot translate default expression %q", s)
	}
}

func (g *gen) ingressOrEgress() error {
	nf, err := g.fn("ingressOrEgress")
	if err != nil {
		return err
	}
	res := fieldNames(nf.Decl.Type.Results)
	if len(res) != 2 || res[0] != "ingress" || res[1] != "egress" {
		return fmt.Errorf("ingressOrEgress: expected two named results")
	}
	evs := events(g.nz, nf.Decl.Body.List, nil)
	loopSets := map[string]string{} // flag -> policy type under which the loop sets it
	defaults := map[string]string{}
	var defCtx []string
	for _, e := range evs {
		switch s := e.stmt.(type) {
		case *ast.AssignStmt:
			if len(s.Lhs) != 1 || len(s.Rhs) != 1 {
				return fmt.Errorf("ingressOrEgress: unexpected statement %s", txt(s))
			}
			flag := txt(s.Lhs[0])
			if flag != "ingress" && flag != "egress" {
				return fmt.Errorf("ingressOrEgress: unexpected statement %s", txt(s))
			}
			if e.has("range np.Spec.PolicyTypes") {
				// set under exactly one positive condition `pt == <type>` (negations of the other branches of an
				// if-chain / switch do not matter: the types are distinct constants)
				var pos []string
				for _, c := range e.conds() {
					if strings.HasPrefix(c, "pt == ") {
						pos = append(pos, strings.TrimPrefix(c, "pt == "))
					} else if !strings.HasPrefix(c, "pt != ") {
						return fmt.Errorf("ingressOrEgress: flag set under unexpected condition %s", c)
					}
				}
				if len(pos) != 1 || txt(s.Rhs[0]) != "true" || loopSets[flag] != "" {
					return fmt.Errorf("ingressOrEgress: loop body changed: %s under %v", txt(s), e.ctx)
				}
				loopSets[flag] = pos[0]
				continue
			}
			v, err := g.boolExpr(s.Rhs[0])
			if err != nil {
				return err
			}
			if _, dup := defaults[flag]; dup {
				return fmt.Errorf("ingressOrEgress: flag %s defaulted twice", flag)
			}
			defaults[flag] = v
			if defCtx != nil && !sameSet(defCtx, e.conds()) {
				return fmt.Errorf("ingressOrEgress: the two defaults are set under different conditions")
			}
			defCtx = e.conds()
		case *ast.ReturnStmt:
			if len(s.Results) != 0 && txt(s) != "return ingress, egress" {
				return fmt.Errorf("ingressOrEgress: unexpected %s", txt(s))
			}
		default:
			return fmt.Errorf("ingressOrEgress: unexpected statement %s", txt(e.stmt))
		}
	}
	if loopSets["ingress"] != "networkv1.PolicyTypeIngress" || loopSets["egress"] != "networkv1.PolicyTypeEgress" {
		return fmt.Errorf("ingressOrEgress: loop body changed: flags set for %v", loopSets)
	}
	if !sameSet(defCtx, []string{"!ingress", "!egress"}) || defaults["ingress"] == "" || defaults["egress"] == "" {
		return fmt.Errorf("ingressOrEgress: defaulting changed (conditions %v, defaults %v)", defCtx, defaults)
	}
	g.emit("-- ingressOrEgress: flags are set by the loop over policyTypes; when neither is set the defaults below apply")
	g.emit("def ioeLoopSetsFlagPerType : Bool := true")
	g.emit("def ioeDefaultCond : String := %s", fg.LeanStr("!ingress && !egress"))
	g.emit("def defaultIngress (nIngress nEgress : Nat) : Bool := %s", defaults["ingress"])
	g.emit("def defaultEgress (nIngress nEgress : Nat) : Bool := %s", defaults["egress"])
	return nil
}

// ---- rulePorts / peerTable / ipBlockToTable

// definedBy: name of the i-th variable defined (or assigned) from a call with this canonical text, "" if none.
func definedBy(evs []event, call string, i int) string {
	for _, e := range evs {
		if as, ok := e.stmt.(*ast.AssignStmt); ok && e.call != nil && txt(e.call) == call && i < len(as.Lhs) {
			return txt(as.Lhs[i])
		}
	}
	return ""
}

func (g *gen) rulePorts() error {
	nf, err := g.fn("rulePorts")
	if err != nil {
		return err
	}
	evs := events(g.nz, nf.Decl.Body.List, nil)
	// the two results: first = tcp list, second = udp list
	var tcp, udp string
	for _, e := range evs {
		if r, ok := e.stmt.(*ast.ReturnStmt); ok && len(r.Results) == 2 && len(e.ctx) == 0 {
			tcp, udp = txt(r.Results[0]), txt(r.Results[1])
		}
	}
	if tcp == "" || udp == "" || tcp == udp {
		return fmt.Errorf("rulePorts: the function no longer returns its two port lists")
	}
	const loop = "range npp"
	proto, def := "", ""
	var override, tcpCond, udpCond []string
	nTcp, nUdp := 0, 0
	for _, e := range evs {
		as, ok := e.stmt.(*ast.AssignStmt)
		if !ok || len(as.Lhs) != 1 || len(as.Rhs) != 1 {
			continue
		}
		lhs, rhs := txt(as.Lhs[0]), txt(as.Rhs[0])
		switch {
		case lhs == tcp && rhs == "append("+tcp+", port.Port.String())" && e.has(loop):
			tcpCond = e.conds()
			nTcp++
		case lhs == udp && rhs == "append("+udp+", port.Port.String())" && e.has(loop):
			udpCond = e.conds()
			nUdp++
		case lhs == tcp || lhs == udp:
			return fmt.Errorf("rulePorts: unexpected update of a port list: %s", txt(as))
		case e.has(loop) && len(e.conds()) == 0 && proto == "":
			if s, err := g.evalStr(as.Rhs[0]); err == nil {
				proto, def = lhs, s
			}
		case e.has(loop) && lhs == proto && rhs == "strings.ToLower(string(*port.Protocol))":
			override = e.conds()
		case e.has(loop) && lhs == proto:
			return fmt.Errorf("rulePorts: protocol override changed: %s", txt(as))
		}
	}
	if proto == "" {
		return fmt.Errorf("rulePorts: default protocol assignment not found")
	}
	if !sameSet(override, []string{"port.Protocol != nil"}) {
		return fmt.Errorf("rulePorts: protocol override changed: set under %v", override)
	}
	isTcp, notTcp := proto+` == "tcp"`, proto+` != "tcp"`
	if nTcp != 1 || nUdp != 1 || !sameSet(tcpCond, []string{"port.Port != nil", isTcp}) || !sameSet(udpCond, []string{"port.Port != nil", notTcp}) {
		return fmt.Errorf("rulePorts: tcp/udp split changed: tcp under %v, udp under %v", tcpCond, udpCond)
	}
	g.emit("-- rulePorts")
	g.emit("def rulePortsDefaultProto : String := %s", fg.LeanStr(def))
	g.emit("def rulePortsTcpCond : String := %s", fg.LeanStr(`protocol == "tcp"`))
	g.emit("def rulePortsSkipsPortless : Bool := true   -- both lists grow only under `port.Port != nil`")
	g.emit("def rulePortsNonTcpGoesUdp : Bool := true")
	return nil
}

func (g *gen) peerTable() error {
	nf, err := g.fn("peerTable")
	if err != nil {
		return err
	}
	var cases []string
	var seen []string
	for _, e := range events(g.nz, nf.Decl.Body.List, nil) {
		r, ok := e.stmt.(*ast.ReturnStmt)
		if !ok {
			return fmt.Errorf("peerTable: unexpected statement %s", txt(e.stmt))
		}
		if len(r.Results) != 1 {
			continue // the final `return nil, error`
		}
		// the case's own guard is the one positive condition; the negations of the earlier guards come with it
		var own []string
		for _, c := range e.conds() {
			neg := false
			for _, s := range seen {
				if c == txt(negate(mustExpr(s))) {
					neg = true
				}
			}
			if !neg {
				own = append(own, c)
			}
		}
		if len(own) != 1 {
			return fmt.Errorf("peerTable: case body changed: %s under %v", txt(r), e.ctx)
		}
		seen = append(seen, own[0])
		cases = append(cases, "("+fg.LeanStr(own[0])+", "+fg.LeanStr(txt(r.Results[0]))+")")
	}
	g.emit("-- peerTable: cases in order (guard, table built)")
	g.emit("def peerTableCases : List (String × String) := [%s]", strings.Join(cases, ",\n  "))

	nf, err = g.fn("podSelectorToTable")
	if err != nil {
		return err
	}
	evs := events(g.nz, nf.Decl.Body.List, nil)
	list := definedBy(evs, "p.podLister.Pods(namespace).List(podLabelSelector)", 0)
	g.emit("def podSelectorListsNamespaceArg : Bool := %s", fg.LeanBool(list != "" &&
		definedBy(evs, "v1.LabelSelectorAsSelector(podSelector)", 0) == "podLabelSelector"))
	g.emit("def podSelectorTableType : Bool := %s   -- hash:ip of entries(list)", fg.LeanBool(list != "" && strings.Contains(nf.Text,
		"return &ipsetTable{IPSet: ipset.IPSet{SetType: ipset.HashIP}, entries: entries("+list+", ipset.HashIP)}, nil")))

	nf, err = g.fn("policyResult")
	if err != nil {
		return err
	}
	first := ""
	if evs := events(g.nz, nf.Decl.Body.List, nil); len(evs) > 0 && evs[0].call != nil {
		if as, ok := evs[0].stmt.(*ast.AssignStmt); ok && len(as.Lhs) == 2 && txt(as.Lhs[0]) == "tbl" {
			first = "tbl, err := " + txt(evs[0].call)
		}
	}
	g.emit("def policyResultSelectorCall : String := %s", fg.LeanStr(first))

	nf, err = g.fn("ipBlockToTable")
	if err != nil {
		return err
	}
	evs = events(g.nz, nf.Decl.Body.List, nil)
	cidr := definedBy(evs, "formatCidr(cidr)", 0)
	exc := definedBy(evs, "formatCidr(ex)", 0)
	g.emit("-- ipBlockToTable")
	g.emit("def ipBlockCidrEntry : Bool := %s", fg.LeanBool(cidr != "" && strings.Contains(nf.Text,
		"entries: []ipset.Entry{{Net: "+cidr+", SetType: ipset.HashNet}}")))
	excLoop := false
	opt := ""
	for _, e := range evs {
		if as, ok := e.stmt.(*ast.AssignStmt); ok && e.has("range except") && e.call != nil && txt(e.call.Fun) == "append" &&
			len(as.Lhs) == 1 && strings.HasSuffix(txt(as.Lhs[0]), ".entries") && len(e.call.Args) == 2 && exc != "" {
			if cl, ok := e.call.Args[1].(*ast.CompositeLit); ok && strings.HasPrefix(txt(cl), "ipset.Entry{Net: "+exc+", SetType: ipset.HashNet") {
				excLoop = true
				for _, el := range cl.Elts {
					if kv, ok := el.(*ast.KeyValueExpr); ok && txt(kv.Key) == "Options" {
						if els, ok := stringSliceLit(kv.Value); ok && len(els) == 1 {
							opt, _ = g.evalStr(els[0])
						}
					}
				}
			}
		}
	}
	g.emit("def ipBlockExceptLoop : Bool := %s", fg.LeanBool(excLoop))
	g.emit("def ipBlockExceptOption : String := %s", fg.LeanStr(opt))

	nf, err = g.fn("formatCidr")
	if err != nil {
		return err
	}
	ipnet := definedBy(events(g.nz, nf.Decl.Body.List, nil), "net.ParseCIDR(cidr)", 1)
	g.emit("def formatCidrMasksAndTrims32 : Bool := %s", fg.LeanBool(ipnet != "" && strings.Contains(nf.Text,
		`return strings.TrimSuffix(`+ipnet+`.String(), "/32"), nil`)))

	nf, err = g.fn("peerRule")
	if err != nil {
		return err
	}
	// the rule under construction: the local whose address is returned
	rule := ""
	for _, e := range events(g.nz, nf.Decl.Body.List, nil) {
		if r, ok := e.stmt.(*ast.ReturnStmt); ok && len(r.Results) == 1 && len(e.ctx) == 0 {
			rule = strings.TrimPrefix(txt(r.Results[0]), "&")
		}
	}
	merges := 0
	for _, e := range events(g.nz, nf.Decl.Body.List, nil) {
		as, ok := e.stmt.(*ast.AssignStmt)
		if !ok || len(as.Lhs) != 1 || !e.has("range peers") {
			continue
		}
		for _, t := range [][2]string{{"ipTable", "ipset.HashIP"}, {"netTable", "ipset.HashNet"}} {
			f := rule + "." + t[0]
			if txt(as) == f+".entries = append("+f+".entries, tbl.entries...)" && e.has("tbl.SetType == "+t[1]) && e.has(f+" != nil") {
				merges++
			}
			if txt(as) == f+" = tbl" && !(e.has("tbl.SetType == "+t[1]) && e.has(f+" == nil")) {
				merges = -10
			}
		}
	}
	g.emit("-- peerRule: tables of one type are merged into one set per rule")
	g.emit("def peerRuleMergesByType : Bool := %s", fg.LeanBool(rule != "" && merges == 2 &&
		definedBy(events(g.nz, nf.Decl.Body.List, nil), "p.peerTable(&peers[j])", 0) == "tbl"))
	return nil
}

func mustExpr(s string) ast.Expr {
	e, err := parseExpr(s)
	if err != nil {
		return ast.NewIdent("_")
	}
	return e
}

// ---- SyncPodChains / ensureBasicChain / filterMatchingPolicies

func (g *gen) podChains() error {
	nf, err := g.fn("SyncPodChains")
	if err != nil {
		return err
	}
	evs := events(g.nz, nf.Decl.Body.List, nil)
	// the rules buffer: the buffer that receives "COMMIT"
	rulesBuf := ""
	for _, e := range evs {
		if e.call != nil && txt(e.call.Fun) == "writeLine" && len(e.call.Args) == 2 && txt(e.call.Args[1]) == `"COMMIT"` {
			rulesBuf = txt(e.call.Args[0])
		}
	}
	if rulesBuf == "" {
		return fmt.Errorf("SyncPodChains: no COMMIT line written")
	}
	type ln struct {
		toks []string
		ev   event
	}
	var lines []ln
	env := map[string][]string{}
	type call struct{ op, pos, chain, cond string }
	var calls []call
	var hookArgs [][]string
	iDel, iIP, iBase, iRestore, iHook := -1, -1, -1, -1, -1
	for i, e := range evs {
		if as, ok := e.stmt.(*ast.AssignStmt); ok && len(as.Lhs) == 1 && len(as.Rhs) == 1 {
			if id, ok := as.Lhs[0].(*ast.Ident); ok {
				if t, ok, err := g.sliceToks(as.Rhs[0], env, nil); err == nil && ok {
					env[id.Name] = t
				} else if err != nil && stringSliceLitLike(as.Rhs[0]) {
					return fmt.Errorf("SyncPodChains: %v", err)
				}
			}
		}
		if t, ok, err := g.writeLineToks(e.call, rulesBuf, env, nil); ok {
			if err != nil {
				return fmt.Errorf("SyncPodChains: %v", err)
			}
			lines = append(lines, ln{t, e})
		}
		if r, ok := e.stmt.(*ast.ReturnStmt); ok {
			switch {
			case e.call != nil && txt(e.call) == "p.deletePodChains(pod)" &&
				sameSet(e.conds(), []string{"filteredEgressPolicy.Len() == 0", "filteredIngressPolicy.Len() == 0"}):
				iDel = i
			case txt(r) == "return nil" && iIP < 0 && iDel >= 0 && e.has(`pod.Status.PodIP == ""`):
				iIP = i
			}
		}
		if e.call == nil {
			continue
		}
		switch fn := txt(e.call.Fun); fn {
		case "p.ensureBasicChain":
			iBase = i
		case "p.iptableHandle.RestoreAll":
			iRestore = i
		case "p.iptableHandle.EnsureRule", "p.iptableHandle.DeleteRule":
			a := e.call.Args
			k := 3
			c := call{op: strings.TrimPrefix(fn, "p.iptableHandle.")}
			if c.op == "EnsureRule" {
				if len(a) != 4 {
					return fmt.Errorf("SyncPodChains: unexpected %s", txt(e.call))
				}
				c.pos, c.chain = txt(a[0]), txt(a[2])
			} else {
				if len(a) != 3 {
					return fmt.Errorf("SyncPodChains: unexpected %s", txt(e.call))
				}
				c.chain, k = txt(a[1]), 2
			}
			if e.call.Ellipsis == token.NoPos {
				return fmt.Errorf("SyncPodChains: unexpected %s", txt(e.call))
			}
			t, ok, err := g.sliceToks(a[k], env, nil)
			if err != nil || !ok {
				return fmt.Errorf("SyncPodChains: cannot evaluate the hook rule of %s", txt(e.call))
			}
			// own condition of the call: what was added after the no-IP guard
			var own []string
			for _, x := range e.conds() {
				if x != `pod.Status.PodIP != ""` && !strings.HasSuffix(x, " == nil") &&
					x != "filteredEgressPolicy.Len() != 0 || filteredIngressPolicy.Len() != 0" {
					own = append(own, x)
				}
			}
			c.cond = strings.Join(own, " && ")
			calls = append(calls, c)
			if len(hookArgs) == 0 || strings.Join(hookArgs[len(hookArgs)-1], "|") != strings.Join(t, "|") {
				hookArgs = append(hookArgs, t)
			}
			if iHook < 0 {
				iHook = i
			}
		}
	}
	if len(lines) != 4 || len(hookArgs) != 2 || len(calls) != 4 {
		return fmt.Errorf("SyncPodChains: expected 4 rule lines, 2 hook argument lists, 4 hook calls; found %d, %d, %d",
			len(lines), len(hookArgs), len(calls))
	}
	g.emit("-- SyncPodChains: pod chain lines in order (first, per selecting policy, last, COMMIT), hook rules")
	g.emit("def podChainFirst : List Tok := %s", leanToks(lines[0].toks))
	g.emit("def podChainJump : List Tok := %s", leanToks(lines[1].toks))
	g.emit("def podChainLast : List Tok := %s", leanToks(lines[2].toks))
	g.emit("def podChainCommit : List Tok := %s", leanToks(lines[3].toks))
	g.emit("def hookIngressArgs : List Tok := %s", leanToks(hookArgs[0]))
	g.emit("def hookEgressArgs : List Tok := %s", leanToks(hookArgs[1]))
	var cs []string
	for _, c := range calls {
		cs = append(cs, "("+fg.LeanStr(c.op)+", "+fg.LeanStr(c.pos)+", "+fg.LeanStr(c.chain)+", "+fg.LeanStr(c.cond)+")")
	}
	g.emit("def hookCalls : List (String × String × String × String) := [%s]", strings.Join(cs, ",\n  "))
	// the jump line: once per policy of p.policies (in order) that selects the pod in either direction; the first and
	// the last line unconditionally (after the guards), outside the loop
	jump := lines[1].ev
	jumpOK := jump.has("range policies") && (jump.has("filteredEgressPolicy.Has(i) || filteredIngressPolicy.Has(i)")) &&
		!lines[0].ev.has("range policies") && !lines[2].ev.has("range policies") &&
		sameSet(lines[0].ev.conds(), lines[2].ev.conds()) && len(jump.conds()) == len(lines[0].ev.conds())+1 &&
		definedBy(evs, "filterMatchingPolicies(pod, policies)", 0) == "filteredIngressPolicy"
	g.emit("def podChainJumpCond : Bool := %s   -- filteredIngressPolicy.Has(i) || filteredEgressPolicy.Has(i)", fg.LeanBool(jumpOK))
	g.emit("def syncPodOrderDeleteThenNoIPThenBase : Bool := %s",
		fg.LeanBool(iDel >= 0 && iIP > iDel && iBase > iIP && iRestore > iBase && iHook > iRestore))

	nf, err = g.fn("ensureBasicChain")
	if err != nil {
		return err
	}
	var base []string
	for _, e := range events(g.nz, nf.Decl.Body.List, nil) {
		if e.call == nil {
			continue
		}
		ce := e.call
		switch txt(ce.Fun) {
		case "p.iptableHandle.EnsureChain":
			if len(ce.Args) == 2 {
				c, _ := g.evalStr(ce.Args[1])
				base = append(base, "("+fg.LeanStr("chain")+", "+fg.LeanStr("")+", "+fg.LeanStr(c)+", [])")
			}
		case "p.iptableHandle.EnsureRule":
			if len(ce.Args) >= 4 {
				var toks []string
				for _, a := range ce.Args[3:] {
					s, err := g.evalStr(a)
					if err != nil {
						return fmt.Errorf("ensureBasicChain: %v", err)
					}
					toks = append(toks, s)
				}
				chain := strings.TrimPrefix(txt(ce.Args[2]), "utiliptables.Chain")
				base = append(base, "("+fg.LeanStr("rule")+", "+fg.LeanStr(strings.TrimPrefix(txt(ce.Args[0]),
					"utiliptables."))+", "+fg.LeanStr(strings.ToUpper(chain))+", "+leanStrs(toks)+")")
			}
		}
	}
	g.emit("-- ensureBasicChain: calls in order (kind, position, chain, args)")
	g.emit("def baseCalls : List (String × String × String × List String) := [%s]", strings.Join(base, ",\n  "))

	nf, err = g.fn("filterMatchingPolicies")
	if err != nil {
		return err
	}
	evs = events(g.nz, nf.Decl.Body.List, nil)
	var ing, egr string
	for _, e := range evs {
		if r, ok := e.stmt.(*ast.ReturnStmt); ok && len(r.Results) == 2 && len(e.ctx) == 0 {
			ing, egr = txt(r.Results[0]), txt(r.Results[1])
		}
	}
	sel := definedBy(evs, "v1.LabelSelectorAsSelector(&policy.np.Spec.PodSelector)", 0)
	errv := definedBy(evs, "v1.LabelSelectorAsSelector(&policy.np.Spec.PodSelector)", 1)
	match := sel + ".Matches(labels.Set(pod.Labels))"
	var ci, ce []string
	ni, ne := 0, 0
	for _, e := range evs {
		if e.call == nil || !e.has("range policies") {
			continue
		}
		switch txt(e.call) {
		case ing + ".Insert(i)":
			ci = e.conds()
			ni++
		case egr + ".Insert(i)":
			ce = e.conds()
			ne++
		}
	}
	common := []string{"policy.np.Namespace == pod.Namespace", errv + " == nil", match}
	g.emit("-- filterMatchingPolicies")
	g.emit("def filterSameNamespaceOnly : Bool := %s", fg.LeanBool(ing != "" && ing != egr && ni == 1 && ne == 1 &&
		contains(ci, common[0]) && contains(ce, common[0])))
	g.emit("def filterIngressNeedsIngressRule : Bool := %s", fg.LeanBool(ni == 1 && sameSet(ci, append([]string{"policy.ingressRule != nil"}, common...))))
	g.emit("def filterEgressNeedsEgressRule : Bool := %s", fg.LeanBool(ne == 1 && sameSet(ce, append([]string{"policy.egressRule != nil"}, common...))))
	return nil
}

// onlyErrGuards: the statement is reached unless an earlier call failed (`… == nil` are the only conditions).
func onlyErrGuards(ctx []string) bool {
	for _, c := range ctx {
		if !strings.HasSuffix(c, " == nil") {
			return false
		}
	}
	return true
}

func contains(xs []string, x string) bool {
	for _, y := range xs {
		if x == y {
			return true
		}
	}
	return false
}

func stringSliceLitLike(e ast.Expr) bool { _, ok := stringSliceLit(e); return ok }

// ---- order of the sync steps

// methodCalls: the calls `p.m(…)` of the function that are made unconditionally, in order.
func (g *gen) methodCalls(name string) ([]string, error) {
	nf, err := g.fn(name)
	if err != nil {
		return nil, err
	}
	var out []string
	for _, e := range events(g.nz, nf.Decl.Body.List, nil) {
		if e.call == nil {
			continue
		}
		fn := txt(e.call.Fun)
		if !strings.HasPrefix(fn, "p.") || strings.Count(fn, ".") != 1 {
			continue
		}
		if !onlyErrGuards(e.ctx) {
			return nil, fmt.Errorf("%s: %s is called conditionally (%v)", name, fn, e.ctx)
		}
		out = append(out, strings.TrimPrefix(fn, "p."))
	}
	return out, nil
}

func (g *gen) orders() error {
	g.emit("-- order of the sync steps")
	run, err := g.methodCalls("Run")
	if err != nil {
		return err
	}
	g.emit("def runOrder : List String := %s", leanStrs(run))
	for _, h := range []string{"AddPolicy", "UpdatePolicy", "DeletePolicy"} {
		c, err := g.methodCalls(h)
		if err != nil {
			return err
		}
		g.emit("def order%s : List String := %s", h, leanStrs(c))
	}
	nf, err := g.fn("writeChains")
	if err != nil {
		return err
	}
	prefixOnly, withX := false, false
	for _, e := range events(g.nz, nf.Decl.Body.List, nil) {
		if e.call != nil && txt(e.call) == `writeLine(filterRules, "-X", string(chain))` {
			withX = true
			prefixOnly = e.has("range existingChains") &&
				sameSet(e.conds(), []string{"!activeChains[chain]", "strings.HasPrefix(string(chain), policyChainPrefix)"})
		}
	}
	g.emit("-- writeChains garbage-collects only chains with the policy-chain prefix")
	g.emit("def writeChainsCollectsPolicyPrefixOnly : Bool := %s", fg.LeanBool(prefixOnly))
	g.emit("def writeChainsDeletesWithX : Bool := %s", fg.LeanBool(withX))

	nf, err = g.fn("syncRules")
	if err != nil {
		return err
	}
	iCreate, iDefer, iIpt, destroyOK := -1, -1, -1, false
	evs := events(g.nz, nf.Decl.Body.List, nil)
	for i, e := range evs {
		if e.call == nil {
			continue
		}
		switch {
		case txt(e.call) == "p.createIPSet(newIPSetMap)" && onlyErrGuards(e.ctx):
			iCreate = i
		case func() bool { _, ok := e.stmt.(*ast.DeferStmt); return ok }() && onlyErrGuards(e.ctx):
			iDefer = i
		case txt(e.call) == "p.syncIptables(polices)" && sameSet(e.conds(), []string{definedBy(evs, "p.createIPSet(newIPSetMap)", 0) + " == nil",
			definedBy(evs, "p.ipsetHandle.ListSets()", 1) + " == nil"}):
			if _, ok := e.stmt.(*ast.ReturnStmt); ok {
				iIpt = i
			}
		case txt(e.call) == "p.ipsetHandle.DestroySet(name)":
			exist := ""
			for _, a := range evs {
				if as, ok := a.stmt.(*ast.AssignStmt); ok && len(as.Lhs) == 2 && len(as.Rhs) == 1 && txt(as.Rhs[0]) == "newIPSetMap[name]" {
					exist = txt(as.Lhs[1])
				}
			}
			destroyOK = e.has("defer") && e.has("range ipsets") && exist != "" &&
				contains(e.conds(), "strings.HasPrefix(name, NamePrefix)") && contains(e.conds(), "!"+exist)
		}
	}
	// syncNetworkPolicyRules: syncRules is called unconditionally (also by a process that has seen no NetworkPolicy: that
	// is what removes the GLX-PLCY chains and GLX sets a previous process left behind)
	nf, err = g.fn("syncNetworkPolicyRules")
	if err != nil {
		return err
	}
	uncond, sawCall := true, false
	for _, e := range events(g.nz, nf.Decl.Body.List, nil) {
		if e.call != nil && txt(e.call.Fun) == "p.syncRules" {
			sawCall = true
			uncond = onlyErrGuards(e.ctx)
			break
		}
		if _, ok := e.stmt.(*ast.ReturnStmt); ok {
			uncond = false // something returns before the call
		}
	}
	if !sawCall {
		return fmt.Errorf("syncNetworkPolicyRules: no call of p.syncRules found")
	}
	g.emit("def syncNetworkPolicyRulesUnconditional : Bool := %s", fg.LeanBool(uncond))

	// createIPSet: does the stale-entry clean-up spare an old entry whose KEY is among the new entries?
	nf, err = g.fn("createIPSet")
	if err != nil {
		return err
	}
	evs = events(g.nz, nf.Decl.Body.List, nil)
	var newEntries, newKeys, oldSet, full string
	for _, e := range evs {
		if e.call == nil {
			continue
		}
		if as, ok := e.stmt.(*ast.AssignStmt); ok && len(as.Lhs) == 1 {
			switch txt(e.call) {
			case "sets.NewString(oldEntries...)":
				oldSet = txt(as.Lhs[0])
			case `strings.Join(append([]string{entry.String()}, entry.Options...), " ")`:
				full = txt(as.Lhs[0])
			}
		}
		if strings.HasSuffix(txt(e.call.Fun), ".Insert") && len(e.call.Args) == 1 && e.has("range set.entries") && len(e.conds()) == 2 {
			recv := strings.TrimSuffix(txt(e.call.Fun), ".Insert")
			switch txt(e.call.Args[0]) {
			case full:
				newEntries = recv
			case "entry.String()":
				newKeys = recv
			}
		}
	}
	addOK, delOK, keeps := false, false, false
	key := `strings.Split(old, " ")[0]`
	for _, e := range evs {
		if e.call == nil {
			continue
		}
		var own []string
		for _, c := range e.conds() {
			if !strings.HasSuffix(c, " == nil") {
				own = append(own, c)
			}
		}
		switch txt(e.call) {
		case "p.ipsetHandle.AddEntryWithOptions(&entry, &set.IPSet, true)":
			addOK = e.has("range set.entries") && oldSet != "" && full != "" && sameSet(own, []string{"!" + oldSet + ".Has(" + full + ")"})
		case "p.ipsetHandle.DelEntryWithOptions(name, " + key + `, strings.Split(old, " ")[1:]...)`:
			if e.has("range oldEntries") && newEntries != "" && contains(own, "!"+newEntries+".Has(old)") {
				delOK = len(own) == 1 || (len(own) == 2 && newKeys != "" && contains(own, "!"+newKeys+".Has("+key+")"))
				keeps = len(own) == 2 && delOK
			}
		}
	}
	if !addOK || !delOK || newEntries == "" {
		return fmt.Errorf("createIPSet: the diff-based entry update no longer has the shape the model mirrors")
	}
	g.emit("-- createIPSet: entries are compared as strings incl. options, added with -exist, stale ones deleted by key;")
	g.emit("-- the clean-up skips an old entry whose key (first word) is among the keys of the new entries")
	g.emit("def createIPSetKeepsRekeyedEntries : Bool := %s", fg.LeanBool(keeps))
	g.emit("-- syncRules: create/refresh sets, then iptables, stale GLX sets destroyed afterwards (defer)")
	g.emit("def syncRulesOrder : Bool := %s", fg.LeanBool(iCreate >= 0 && iDefer > iCreate && iIpt > iDefer && destroyOK))
	return nil
}

// ---- deletePodChains / deletePodRuleByKeyword

func (g *gen) deletePodChainsFacts() error {
	nf, err := g.fn("deletePodChains")
	if err != nil {
		return err
	}
	var calls, order []string
	for _, e := range events(g.nz, nf.Decl.Body.List, nil) {
		if e.call == nil {
			continue
		}
		switch fn := txt(e.call.Fun); fn {
		case "p.deletePodRuleByKeyword":
			if len(e.call.Args) != 3 || txt(e.call.Args[0]) != "pod" || !onlyErrGuards(e.ctx) {
				return fmt.Errorf("deletePodChains: unexpected %s under %v", txt(e.call), e.ctx)
			}
			calls = append(calls, "("+fg.LeanStr(txt(e.call.Args[1]))+", "+fg.LeanStr(txt(e.call.Args[2]))+")")
			order = append(order, "deletePodRuleByKeyword")
		case "p.iptableHandle.FlushChain", "p.iptableHandle.DeleteChain":
			if len(e.call.Args) != 2 || txt(e.call.Args[1]) != "utiliptables.Chain(podChainName(pod))" {
				return fmt.Errorf("deletePodChains: unexpected %s", txt(e.call))
			}
			order = append(order, strings.TrimPrefix(fn, "p.iptableHandle."))
		}
	}
	g.emit("-- deletePodChains: the hook rules are searched by this keyword in these chains; then the pod chain is flushed, deleted")
	g.emit("def deletePodChainsCalls : List (String × String) := [%s]", strings.Join(calls, ", "))
	g.emit("def deletePodChainsOrder : List String := %s", leanStrs(order))

	nf, err = g.fn("deletePodRuleByKeyword")
	if err != nil {
		return err
	}
	evs := events(g.nz, nf.Decl.Body.List, nil)
	lines := definedBy(evs, "p.iptableHandle.ListRule(utiliptables.TableFilter, chain)", 0)
	if lines == "" {
		return fmt.Errorf("deletePodRuleByKeyword: the rules of the chain are no longer listed by ListRule(filter, chain)")
	}
	// the line kept: assigned from the loop variable under `strings.Contains(<line>, keyword)`, followed by break
	kept, first := "", false
	for i, e := range evs {
		as, ok := e.stmt.(*ast.AssignStmt)
		if !ok || !e.has("range "+lines) || len(as.Lhs) != 1 || len(as.Rhs) != 1 {
			continue
		}
		v := txt(as.Rhs[0])
		if contains(e.conds(), "strings.Contains("+v+", keyword)") {
			kept = txt(as.Lhs[0])
			if i+1 < len(evs) && txt(evs[i+1].stmt) == "break" && sameSet(evs[i+1].ctx, e.ctx) {
				first = true
			}
		}
	}
	if kept == "" {
		return fmt.Errorf("deletePodRuleByKeyword: the rule line is no longer chosen by strings.Contains(line, keyword)")
	}
	parts := definedBy(evs, `strings.Split(`+kept+`, " ")`, 0)
	drop := -1
	for _, e := range evs {
		if e.call == nil || txt(e.call.Fun) != "p.iptableHandle.DeleteRule" {
			continue
		}
		if drop >= 0 || len(e.call.Args) != 3 || e.call.Ellipsis == token.NoPos || txt(e.call.Args[0]) != "utiliptables.TableFilter" ||
			txt(e.call.Args[1]) != "chain" || e.has("range "+lines) {
			return fmt.Errorf("deletePodRuleByKeyword: unexpected %s", txt(e.call))
		}
		if sl, ok := e.call.Args[2].(*ast.SliceExpr); ok && txt(sl.X) == parts && sl.High == nil && sl.Low != nil {
			if n, err := strconv.Atoi(txt(sl.Low)); err == nil {
				drop = n
			}
		}
	}
	if drop < 0 || parts == "" {
		return fmt.Errorf("deletePodRuleByKeyword: the words of the deleted rule are no longer the words of the line after a prefix")
	}
	g.emit("-- deletePodRuleByKeyword: ListRule lines are `-A <chain> <rule words>`; the FIRST line containing the keyword is")
	g.emit("-- split at blanks, its first words dropped (the `-A <chain>`), the rest passed to DeleteRule")
	g.emit("def deleteByKeywordMatch : String := %s", fg.LeanStr("strings.Contains(line, keyword)"))
	g.emit("def deleteByKeywordFirstMatchOnly : Bool := %s", fg.LeanBool(first))
	g.emit("def deleteByKeywordDropsWords : Nat := %d", drop)
	return nil
}

func generate(repo string) (map[string]string, error) {
	g := &gen{nfs: map[string]*NF{}}
	var err error
	if g.p, err = fg.ParseFile(repo, srcPolicy); err != nil {
		return nil, err
	}
	if g.ev, err = fg.ParseFile(repo, srcEvent); err != nil {
		return nil, err
	}
	g.nz = newPolicyNormaliser(g.p, g.ev)
	if err = g.loadVars(); err != nil {
		return nil, err
	}
	g.out.WriteString(fg.Header("network-policy names, rule templates, defaulting and sync-order facts (M7 / C16, C15)",
		srcPolicy, srcEvent))
	g.emit("namespace Galaxy.Generated.Policy")
	g.emit("")
	g.emit("/-- one word of a rule template -/")
	g.emit("inductive Tok where")
	g.emit("  | lit (s : String)                  -- literal word")
	g.emit("  | var (src : String)                -- value of this Go expression (canonical form, see tools/factgen/cmd/policy/norm.go)")
	g.emit("  | join (src : String) (sep : String) -- strings.Join(src, sep)")
	g.emit("  deriving DecidableEq, Repr")
	g.emit("")
	g.emit("def namePrefix : String := %s", fg.LeanStr(g.vars["NamePrefix"]))
	g.emit("def policyChainPrefix : String := %s", fg.LeanStr(g.vars["policyChainPrefix"]))
	g.emit("def podChainPrefix : String := %s", fg.LeanStr(g.vars["podChainPrefix"]))
	g.emit("def ingressChain : String := %s", fg.LeanStr(g.vars["ingressChain"]))
	g.emit("def egressChain : String := %s", fg.LeanStr(g.vars["egressChain"]))
	g.emit("def chainNotExistErr : String := %s", fg.LeanStr(g.vars["chainNotExistErr"]))
	g.emit("")
	for _, f := range []func() error{g.nameFormats, g.policyChainTemplates, g.writeRulesFacts, g.ingressOrEgress,
		g.rulePorts, g.peerTable, g.podChains, g.deletePodChainsFacts, g.orders} {
		if err := f(); err != nil {
			return nil, err
		}
		g.emit("")
	}
	g.emit("end Galaxy.Generated.Policy")
	return map[string]string{"Policy.lean": g.out.String()}, nil
}

func main() { fg.Run("policy", generate) }
