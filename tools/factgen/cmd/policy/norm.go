// Normaliser of the policy translator (harmless/NORMALISE.md): every function is brought into a canonical form before
// a fact is matched, so that behaviour-preserving rewrites (renamed locals, guard clauses, switch instead of if-chains,
// range forms, extracted / inlined helpers, Sprintf vs. concatenation, reworded messages, comments) leave the facts
// alone, while a changed operator, constant, rule word, operand order, a dropped or moved guard or a reordered
// side-effecting call still changes what is matched.
//
// Canonical form (passes in this order; everything is syntactic, go/ast without type checking):
//
//  1. comments, glog / klog / fmt.Print* statements and `if glog.V(n) {…}` blocks are dropped; fmt.Errorf / errors.New
//     lose their arguments (that an error is built stays);
//  2. calls of private helpers of the package that the translator does not know by name are inlined one level
//     (helper with at most one, trailing, return); `b.WriteString(strings.Join(ws, " ") + "\n")` is writeLine(b, ws...);
//  3. `switch` (with or without tag, no fallthrough) is an if / else-if chain; `for i := 0; i < len(xs); i++` is
//     `for i := range xs`; `var x T = e` / `var x = e` inside a function is `x := e`;
//  4. `if init; c {…}` is `init; if c {…}`; an `else` after a branch that always leaves is dropped; bare blocks are
//     spliced; `if a { if b {…} }` is `if a && b {…}`; a trailing `if c { body }` of a loop body (of a function without
//     results, of a function ending in `return <constants>`) is the guard `if !c { continue }` (`return …`) followed
//     by the body; a guard on `a || b` is one guard per disjunct;
//  5. single-assignment locals with a side-effect-free right-hand side are inlined into their uses;
//  6. `for i := range xs { … xs[i] … }` is `for i, v := range xs { … v … }` (key `_` when unused) unless xs[i] is
//     written or its address taken;
//  7. alpha-renaming: receiver, parameters and named results by position (names of the FuncSpec), locals defined from
//     a call by the callee (table), range variables by the ranged expression (table), all other locals v1, v2, … in
//     order of definition;
//  8. string building: concatenation with literals and strconv.Itoa is fmt.Sprintf;
//  9. conditions: negations pushed inwards (De Morgan, `!(a == b)` is `a != b`, `!(a < b)` is `a >= b`), literals on
//     the right of comparisons, operands of side-effect-free && / || chains sorted, redundant parentheses dropped.
package main

import (
	"bytes"
	"fmt"
	"go/ast"
	"go/parser"
	"go/printer"
	"go/token"
	"reflect"
	"strings"
)

// FuncSpec: canonical names of one function.
type FuncSpec struct {
	Recv    string
	Params  []string
	Results []string // named results by position
}

// Normaliser: package context and naming tables.
type Normaliser struct {
	Funcs         map[string]*ast.FuncDecl
	fsets         map[*ast.FuncDecl]*token.FileSet
	Known         map[string]bool      // private callees the facts know by name: never inlined
	CalleeResults map[string][]string  // locals defined by `a, b := callee(…)`
	RangeVars     map[string][2]string // ranged expression (canonical text) -> key, value
	Pure          map[string]bool      // callees (last name component, or full text) without side effects
	Specs         map[string]FuncSpec  // by function name
	Volatile      map[string]bool      // pure callees whose value may change over time: such locals are not inlined
	Fold          []string             // single-expression helpers folded back when found inlined
	FromExpr      map[string]string    // local assigned from this expression (canonical text) -> name
}

func NewNormaliser() *Normaliser {
	return &Normaliser{Funcs: map[string]*ast.FuncDecl{}, fsets: map[*ast.FuncDecl]*token.FileSet{}, Known: map[string]bool{},
		CalleeResults: map[string][]string{}, RangeVars: map[string][2]string{}, Pure: map[string]bool{},
		Specs: map[string]FuncSpec{}}
}

func (nz *Normaliser) Register(fset *token.FileSet, f *ast.File) {
	for _, d := range f.Decls {
		if fd, ok := d.(*ast.FuncDecl); ok && fd.Body != nil {
			nz.Funcs[fd.Name.Name] = fd
			nz.fsets[fd] = fset
		}
	}
}

// NF is a normalised function.
type NF struct {
	Fset *token.FileSet
	Decl *ast.FuncDecl
	Text string // body, whitespace collapsed
}

var posType = reflect.TypeOf(token.NoPos)

// flattenPos puts every node on the same source position, so that the printed text does not depend on the line
// breaks of the source (go/printer keeps those).
func flattenPos(v reflect.Value) {
	switch v.Kind() {
	case reflect.Ptr, reflect.Interface:
		if !v.IsNil() {
			flattenPos(v.Elem())
		}
	case reflect.Slice:
		for i := 0; i < v.Len(); i++ {
			flattenPos(v.Index(i))
		}
	case reflect.Struct:
		if v.Type() == reflect.TypeOf(ast.Object{}) || v.Type() == reflect.TypeOf(ast.Scope{}) {
			return
		}
		for i := 0; i < v.NumField(); i++ {
			f := v.Field(i)
			if f.Type() == posType {
				if f.Int() != 0 && f.CanSet() {
					f.SetInt(1)
				}
				continue
			}
			flattenPos(f)
		}
	}
}

func oneLine(s string) string { return strings.Join(strings.Fields(s), " ") }

func printNode(fset *token.FileSet, n ast.Node) string {
	var b bytes.Buffer
	printer.Fprint(&b, fset, n)
	return b.String()
}

// Src: canonical one-line text of a node of the normalised function.
func (f *NF) Src(n ast.Node) string { return oneLine(printNode(f.Fset, n)) }

func reparse(src string) (*token.FileSet, *ast.FuncDecl, error) {
	fset := token.NewFileSet()
	f, err := parser.ParseFile(fset, "n.go", "package n\n"+src, 0)
	if err != nil {
		return nil, nil, fmt.Errorf("normaliser: re-parse failed: %v\n%s", err, src)
	}
	for _, d := range f.Decls {
		if fd, ok := d.(*ast.FuncDecl); ok {
			return fset, fd, nil
		}
	}
	return nil, nil, fmt.Errorf("normaliser: no function in %q", src)
}

func (nz *Normaliser) copyOf(fd *ast.FuncDecl) (*token.FileSet, *ast.FuncDecl, error) {
	fs := nz.fsets[fd]
	if fs == nil {
		fs = token.NewFileSet()
	}
	return reparse(printNode(fs, &ast.FuncDecl{Recv: fd.Recv, Name: fd.Name, Type: fd.Type, Body: fd.Body}))
}

// NormaliseByName normalises the registered function with the spec registered for it.
func (nz *Normaliser) NormaliseByName(name string) (*NF, error) {
	fd := nz.Funcs[name]
	if fd == nil {
		return nil, fmt.Errorf("function %s not found", name)
	}
	return nz.Normalise(fd, nz.Specs[name])
}

func (nz *Normaliser) Normalise(fd *ast.FuncDecl, spec FuncSpec) (*NF, error) {
	nf, err := nz.normaliseNoFold(fd, spec)
	if err != nil {
		return nil, err
	}
	nz.foldHelpers(nf)
	fs, d, err := reparse(printNode(nf.Fset, nf.Decl))
	if err != nil {
		return nil, err
	}
	flattenPos(reflect.ValueOf(d))
	return &NF{Fset: fs, Decl: d, Text: oneLine(printNode(fs, d.Body))}, nil
}

func (nz *Normaliser) normaliseNoFold(fd *ast.FuncDecl, spec FuncSpec) (*NF, error) {
	fs, d, err := nz.copyOf(fd)
	if err != nil {
		return nil, err
	}
	again := func() error {
		fs, d, err = reparse(printNode(fs, d))
		return err
	}
	stripErrTexts(d.Body)
	d.Body.List = dropLogs(d.Body.List)
	nz.inlineHelpers(fs, d)
	if err = again(); err != nil {
		return nil, err
	}
	stripErrTexts(d.Body)
	d.Body.List = dropLogs(d.Body.List)
	if d.Name.Name != "writeLine" {
		foldWriteLine(fs, d.Body)
	}
	d.Body.List = varToDefine(d.Body.List)
	d.Body.List = switchToIf(d.Body.List)
	d.Body.List = forToRange(fs, d.Body.List)
	hasResults := d.Type.Results != nil && len(d.Type.Results.List) > 0
	for i := 0; i < 10; i++ {
		d.Body.List = flatten(d.Body.List)
		d.Body.List = guards(fs, d.Body.List, tailFunc, hasResults)
	}
	if err = again(); err != nil {
		return nil, err
	}
	for i := 0; i < 6; i++ {
		if !nz.inlineLocals(d) {
			break
		}
		if err = again(); err != nil {
			return nil, err
		}
	}
	d.Body.List = rangeIndexToValue(fs, d.Body.List)
	if err = again(); err != nil {
		return nil, err
	}
	nz.rename(fs, d, spec)
	if err = again(); err != nil {
		return nil, err
	}
	canonStrings(d.Body)
	unspread(d.Body)
	nz.simplifyConds(fs, d.Body)
	reparen(d.Body)
	if err = again(); err != nil {
		return nil, err
	}
	return &NF{Fset: fs, Decl: d, Text: oneLine(printNode(fs, d.Body))}, nil
}

// ---- 1. logs, message texts ------------------------------------------------------------------------------------------

func calleeText(c *ast.CallExpr) string { return exprPath(c.Fun) }

// exprPath: dotted path of an identifier / selector chain (calls inside as `f()`), "" otherwise.
func exprPath(e ast.Expr) string {
	switch f := e.(type) {
	case *ast.Ident:
		return f.Name
	case *ast.SelectorExpr:
		x := exprPath(f.X)
		if x == "" {
			return ""
		}
		return x + "." + f.Sel.Name
	case *ast.CallExpr:
		x := exprPath(f.Fun)
		if x == "" {
			return ""
		}
		return x + "()"
	case *ast.ParenExpr:
		return exprPath(f.X)
	}
	return ""
}

func lastName(t string) string {
	if i := strings.LastIndex(t, "."); i >= 0 {
		return t[i+1:]
	}
	return t
}

func isLogCall(c *ast.CallExpr) bool {
	t := calleeText(c)
	return strings.HasPrefix(t, "glog.") || strings.HasPrefix(t, "klog.") || strings.HasPrefix(t, "fmt.Print") ||
		strings.HasPrefix(t, "log.Print")
}

func dropLogs(list []ast.Stmt) []ast.Stmt {
	var out []ast.Stmt
	for _, s := range list {
		if es, ok := s.(*ast.ExprStmt); ok {
			if c, ok := es.X.(*ast.CallExpr); ok && isLogCall(c) {
				continue
			}
		}
		if ds, ok := s.(*ast.DeferStmt); ok && isLogCall(ds.Call) {
			continue
		}
		if is, ok := s.(*ast.IfStmt); ok && is.Init == nil && is.Else == nil {
			if c, ok := is.Cond.(*ast.CallExpr); ok && (strings.HasPrefix(calleeText(c), "glog.V") || strings.HasPrefix(calleeText(c), "klog.V")) {
				continue
			}
		}
		forBlocks(s, func(b *ast.BlockStmt) { b.List = dropLogs(b.List) })
		out = append(out, s)
	}
	return out
}

// forBlocks calls f on the blocks directly nested in s (f recurses itself).
func forBlocks(s ast.Stmt, f func(b *ast.BlockStmt)) {
	lits := func(n ast.Node) {
		ast.Inspect(n, func(m ast.Node) bool {
			if fl, ok := m.(*ast.FuncLit); ok {
				f(fl.Body)
				return false
			}
			return true
		})
	}
	switch x := s.(type) {
	case *ast.BlockStmt:
		f(x)
	case *ast.IfStmt:
		if x.Init != nil {
			lits(x.Init)
		}
		f(x.Body)
		if x.Else != nil {
			if eb, ok := x.Else.(*ast.BlockStmt); ok {
				f(eb)
			} else {
				forBlocks(x.Else, f)
			}
		}
	case *ast.ForStmt:
		f(x.Body)
	case *ast.RangeStmt:
		f(x.Body)
	case *ast.SwitchStmt:
		for _, c := range x.Body.List {
			cc := c.(*ast.CaseClause)
			b := &ast.BlockStmt{List: cc.Body}
			f(b)
			cc.Body = b.List
		}
	case *ast.LabeledStmt:
		forBlocks(x.Stmt, f)
	case *ast.ExprStmt, *ast.DeferStmt, *ast.GoStmt, *ast.AssignStmt, *ast.ReturnStmt, *ast.DeclStmt:
		lits(x)
	}
}

func stripErrTexts(n ast.Node) {
	ast.Inspect(n, func(x ast.Node) bool {
		if c, ok := x.(*ast.CallExpr); ok {
			switch calleeText(c) {
			case "fmt.Errorf", "errors.New":
				c.Fun = ast.NewIdent("newError")
				c.Args = nil
			}
		}
		return true
	})
}

// ---- 2. helpers ---------------------------------------------------------------------------------------------------------

func isPrivate(name string) bool { return name != "" && name[0] >= 'a' && name[0] <= 'z' }

func recvName(fd *ast.FuncDecl) string {
	if fd.Recv != nil && len(fd.Recv.List) == 1 && len(fd.Recv.List[0].Names) == 1 {
		return fd.Recv.List[0].Names[0].Name
	}
	return ""
}

func fieldNames(fl *ast.FieldList) []string {
	var out []string
	if fl == nil {
		return nil
	}
	for _, f := range fl.List {
		for _, n := range f.Names {
			out = append(out, n.Name)
		}
	}
	return out
}

func paramNames(fd *ast.FuncDecl) []string { return fieldNames(fd.Type.Params) }

func (nz *Normaliser) helperOf(c *ast.CallExpr, recv string) *ast.FuncDecl {
	name := ""
	switch f := c.Fun.(type) {
	case *ast.Ident:
		name = f.Name
	case *ast.SelectorExpr:
		if id, ok := f.X.(*ast.Ident); ok && id.Name == recv && recv != "" {
			name = f.Sel.Name
		}
	}
	if !isPrivate(name) || nz.Known[name] {
		return nil
	}
	h := nz.Funcs[name]
	if h == nil || h.Body == nil || len(h.Body.List) == 0 {
		return nil
	}
	if (h.Recv != nil) != (func() bool { _, ok := c.Fun.(*ast.SelectorExpr); return ok })() {
		return nil
	}
	if h.Type.Params != nil {
		for _, f := range h.Type.Params.List {
			if _, ok := f.Type.(*ast.Ellipsis); ok {
				return nil
			}
		}
	}
	if len(fieldNames(h.Type.Results)) > 0 {
		return nil // named results: not inlined
	}
	rets := 0
	ast.Inspect(h.Body, func(n ast.Node) bool {
		switch n.(type) {
		case *ast.FuncLit:
			return false
		case *ast.ReturnStmt:
			rets++
		case *ast.DeferStmt:
			rets += 2
		}
		return true
	})
	if rets > 1 {
		return nil
	}
	if rets == 1 {
		if _, ok := h.Body.List[len(h.Body.List)-1].(*ast.ReturnStmt); !ok {
			return nil
		}
	}
	return h
}

// renameIdents renames identifier uses (not selector field names, not struct-literal keys) per the map.
func renameIdents(n ast.Node, m map[string]string) {
	if len(m) == 0 {
		return
	}
	skip := map[*ast.Ident]bool{}
	typ := func(t ast.Expr) {
		if t == nil {
			return
		}
		ast.Inspect(t, func(y ast.Node) bool {
			if id, ok := y.(*ast.Ident); ok {
				skip[id] = true
			}
			return true
		})
	}
	ast.Inspect(n, func(x ast.Node) bool {
		switch v := x.(type) {
		case *ast.SelectorExpr:
			skip[v.Sel] = true
		case *ast.KeyValueExpr:
			if id, ok := v.Key.(*ast.Ident); ok {
				skip[id] = true
			}
		case *ast.CompositeLit:
			typ(v.Type)
		case *ast.ValueSpec:
			typ(v.Type)
		case *ast.Field:
			typ(v.Type)
		case *ast.ArrayType:
			typ(v)
		case *ast.MapType:
			typ(v)
		case *ast.TypeAssertExpr:
			typ(v.Type)
		}
		return true
	})
	ast.Inspect(n, func(x ast.Node) bool {
		if id, ok := x.(*ast.Ident); ok && !skip[id] {
			if to, ok := m[id.Name]; ok {
				id.Name = to
			}
		}
		return true
	})
}

func (nz *Normaliser) inlineHelpers(fset *token.FileSet, fd *ast.FuncDecl) {
	recv := recvName(fd)
	n := 0
	var walk func(list []ast.Stmt) []ast.Stmt
	walk = func(list []ast.Stmt) []ast.Stmt {
		var out []ast.Stmt
		for _, s := range list {
			forBlocks(s, func(b *ast.BlockStmt) { b.List = walk(b.List) })
			var call *ast.CallExpr
			var lhs []ast.Expr
			var tok token.Token
			isRet := false
			switch x := s.(type) {
			case *ast.AssignStmt:
				if len(x.Rhs) == 1 {
					if c, ok := x.Rhs[0].(*ast.CallExpr); ok {
						call, lhs, tok = c, x.Lhs, x.Tok
					}
				}
			case *ast.ExprStmt:
				if c, ok := x.X.(*ast.CallExpr); ok {
					call = c
				}
			case *ast.ReturnStmt:
				if len(x.Results) == 1 {
					if c, ok := x.Results[0].(*ast.CallExpr); ok {
						call, isRet = c, true
					}
				}
			}
			var h *ast.FuncDecl
			if call != nil {
				h = nz.helperOf(call, recv)
			}
			if h == nil {
				out = append(out, s)
				continue
			}
			_, hc, err := nz.copyOf(h)
			ps := paramNames(hc)
			if err != nil || len(ps) != len(call.Args) {
				out = append(out, s)
				continue
			}
			n++
			// helper locals get a private suffix so they cannot capture names of the caller
			loc := map[string]string{}
			for name := range localDefs(hc) {
				loc[name] = fmt.Sprintf("%s_h%d", name, n)
			}
			renameIdents(hc.Body, loc)
			m := map[string]string{}
			var pre []ast.Stmt
			for i, p := range ps {
				if p == "_" {
					continue
				}
				if id, ok := call.Args[i].(*ast.Ident); ok {
					m[p] = id.Name
				} else {
					pn := fmt.Sprintf("%s_h%d", p, n)
					m[p] = pn
					pre = append(pre, &ast.AssignStmt{Lhs: []ast.Expr{ast.NewIdent(pn)}, Tok: token.DEFINE, Rhs: []ast.Expr{call.Args[i]}})
				}
			}
			if r := recvName(hc); r != "" && recv != "" {
				m[r] = recv
			}
			renameIdents(hc.Body, m)
			body := hc.Body.List
			var results []ast.Expr
			if k := len(body); k > 0 {
				if r, ok := body[k-1].(*ast.ReturnStmt); ok {
					results, body = r.Results, body[:k-1]
				}
			}
			out = append(out, pre...)
			out = append(out, body...)
			switch {
			case isRet:
				out = append(out, &ast.ReturnStmt{Results: results})
			case len(lhs) > 0 && len(lhs) == len(results):
				out = append(out, &ast.AssignStmt{Lhs: lhs, Tok: tok, Rhs: results})
			case len(lhs) > 0:
				// shape not understood (multi-value call result): keep the call
				out = out[:len(out)-len(pre)-len(body)]
				out = append(out, s)
			}
		}
		return out
	}
	fd.Body.List = walk(fd.Body.List)
}

// localDefs: names defined inside the function body (:=, var, range, func-literal parameters).
func localDefs(fd *ast.FuncDecl) map[string]bool {
	defs := map[string]bool{}
	ast.Inspect(fd.Body, func(n ast.Node) bool {
		switch x := n.(type) {
		case *ast.AssignStmt:
			if x.Tok == token.DEFINE {
				for _, l := range x.Lhs {
					if id, ok := l.(*ast.Ident); ok && id.Name != "_" {
						defs[id.Name] = true
					}
				}
			}
		case *ast.RangeStmt:
			if x.Tok == token.DEFINE {
				for _, e := range []ast.Expr{x.Key, x.Value} {
					if id, ok := e.(*ast.Ident); ok && id.Name != "_" {
						defs[id.Name] = true
					}
				}
			}
		case *ast.ValueSpec:
			for _, id := range x.Names {
				if id.Name != "_" {
					defs[id.Name] = true
				}
			}
		case *ast.FuncLit:
			for _, p := range fieldNames(x.Type.Params) {
				if p != "_" {
					defs[p] = true
				}
			}
		}
		return true
	})
	return defs
}

// foldWriteLine: `B.WriteString(strings.Join(W, " ") + "\n")` is `writeLine(B, W...)` (the body of writeLine).
func foldWriteLine(fset *token.FileSet, n ast.Node) {
	ast.Inspect(n, func(x ast.Node) bool {
		c, ok := x.(*ast.CallExpr)
		if !ok || len(c.Args) != 1 {
			return true
		}
		sel, ok := c.Fun.(*ast.SelectorExpr)
		if !ok || sel.Sel.Name != "WriteString" {
			return true
		}
		be, ok := c.Args[0].(*ast.BinaryExpr)
		if !ok || be.Op != token.ADD {
			return true
		}
		nl, ok := be.Y.(*ast.BasicLit)
		if !ok || nl.Value != `"\n"` {
			return true
		}
		j, ok := be.X.(*ast.CallExpr)
		if !ok || calleeText(j) != "strings.Join" || len(j.Args) != 2 {
			return true
		}
		if sp, ok := j.Args[1].(*ast.BasicLit); !ok || sp.Value != `" "` {
			return true
		}
		c.Fun = ast.NewIdent("writeLine")
		c.Args = []ast.Expr{sel.X, j.Args[0]}
		c.Ellipsis = token.Pos(1)
		return true
	})
}

// ---- 3. switch, for, var ----------------------------------------------------------------------------------------------

func varToDefine(list []ast.Stmt) []ast.Stmt {
	var out []ast.Stmt
	for _, s := range list {
		forBlocks(s, func(b *ast.BlockStmt) { b.List = varToDefine(b.List) })
		ds, ok := s.(*ast.DeclStmt)
		if !ok {
			out = append(out, s)
			continue
		}
		gd, ok := ds.Decl.(*ast.GenDecl)
		if !ok || gd.Tok != token.VAR {
			out = append(out, s)
			continue
		}
		var keep []ast.Spec
		var defs []ast.Stmt
		for _, sp := range gd.Specs {
			vs := sp.(*ast.ValueSpec)
			if len(vs.Values) == len(vs.Names) && len(vs.Names) > 0 {
				for i, nm := range vs.Names {
					defs = append(defs, &ast.AssignStmt{Lhs: []ast.Expr{nm}, Tok: token.DEFINE, Rhs: []ast.Expr{vs.Values[i]}})
				}
			} else {
				keep = append(keep, sp)
			}
		}
		// one declaration per name, so that grouping does not matter
		for _, sp := range keep {
			vs := sp.(*ast.ValueSpec)
			for _, nm := range vs.Names {
				out = append(out, &ast.DeclStmt{Decl: &ast.GenDecl{Tok: token.VAR, Specs: []ast.Spec{
					&ast.ValueSpec{Names: []*ast.Ident{nm}, Type: vs.Type}}}})
			}
		}
		out = append(out, defs...)
	}
	return out
}

func switchToIf(list []ast.Stmt) []ast.Stmt {
	var out []ast.Stmt
	for _, s := range list {
		forBlocks(s, func(b *ast.BlockStmt) { b.List = switchToIf(b.List) })
		sw, ok := s.(*ast.SwitchStmt)
		if !ok {
			out = append(out, s)
			continue
		}
		bad := false
		ast.Inspect(sw.Body, func(n ast.Node) bool {
			switch b := n.(type) {
			case *ast.BranchStmt:
				if b.Tok == token.FALLTHROUGH || b.Tok == token.BREAK {
					bad = true
				}
			case *ast.ForStmt, *ast.RangeStmt, *ast.FuncLit:
				return false // a break in there is not ours (conservative the other way round is fine)
			}
			return true
		})
		if bad {
			out = append(out, s)
			continue
		}
		if sw.Init != nil {
			out = append(out, sw.Init)
		}
		var first, cur *ast.IfStmt
		var def *ast.BlockStmt
		for _, c := range sw.Body.List {
			cc := c.(*ast.CaseClause)
			body := &ast.BlockStmt{List: cc.Body}
			if cc.List == nil {
				def = body
				continue
			}
			var cond ast.Expr
			for _, v := range cc.List {
				var eq ast.Expr = v
				if sw.Tag != nil {
					eq = &ast.BinaryExpr{X: sw.Tag, Op: token.EQL, Y: v}
				}
				if cond == nil {
					cond = eq
				} else {
					cond = &ast.BinaryExpr{X: cond, Op: token.LOR, Y: eq}
				}
			}
			is := &ast.IfStmt{Cond: cond, Body: body}
			if first == nil {
				first = is
			} else {
				cur.Else = is
			}
			cur = is
		}
		switch {
		case first == nil && def != nil:
			out = append(out, def.List...)
		case first != nil:
			if def != nil {
				cur.Else = def
			}
			out = append(out, first)
		}
	}
	return out
}

// forToRange: `for i := 0; i < len(xs); i++ {…}` (i not written in the body) is `for i := range xs {…}`.
func forToRange(fset *token.FileSet, list []ast.Stmt) []ast.Stmt {
	for k, s := range list {
		forBlocks(s, func(b *ast.BlockStmt) { b.List = forToRange(fset, b.List) })
		f, ok := s.(*ast.ForStmt)
		if !ok || f.Init == nil || f.Cond == nil || f.Post == nil {
			continue
		}
		as, ok := f.Init.(*ast.AssignStmt)
		if !ok || as.Tok != token.DEFINE || len(as.Lhs) != 1 || len(as.Rhs) != 1 {
			continue
		}
		id, ok := as.Lhs[0].(*ast.Ident)
		if z, ok2 := as.Rhs[0].(*ast.BasicLit); !ok || !ok2 || z.Value != "0" {
			continue
		}
		inc, ok := f.Post.(*ast.IncDecStmt)
		if !ok || inc.Tok != token.INC || exprPath(inc.X) != id.Name {
			continue
		}
		c, ok := f.Cond.(*ast.BinaryExpr)
		if !ok || c.Op != token.LSS || exprPath(c.X) != id.Name {
			continue
		}
		ln, ok := c.Y.(*ast.CallExpr)
		if !ok || calleeText(ln) != "len" || len(ln.Args) != 1 {
			continue
		}
		if writes(f.Body, id.Name) {
			continue
		}
		list[k] = &ast.RangeStmt{Key: id, Tok: token.DEFINE, X: ln.Args[0], Body: f.Body}
	}
	return list
}

// writes: is the plain identifier assigned / incremented / address-taken inside n?
func writes(n ast.Node, name string) bool {
	w := false
	ast.Inspect(n, func(x ast.Node) bool {
		switch v := x.(type) {
		case *ast.AssignStmt:
			for _, l := range v.Lhs {
				if id, ok := l.(*ast.Ident); ok && id.Name == name {
					w = true
				}
			}
		case *ast.IncDecStmt:
			if id, ok := v.X.(*ast.Ident); ok && id.Name == name {
				w = true
			}
		case *ast.UnaryExpr:
			if id, ok := v.X.(*ast.Ident); ok && v.Op == token.AND && id.Name == name {
				w = true
			}
		}
		return true
	})
	return w
}
