package main

import (
	"go/parser"
	"go/token"
	"os"
	"path/filepath"
	"strings"
	"testing"
)

// norm normalises function f of a miniature package.
func norm(t *testing.T, src, f string) string {
	t.Helper()
	fset := token.NewFileSet()
	file, err := parser.ParseFile(fset, "m.go", "package m\n"+src, parser.ParseComments)
	if err != nil {
		t.Fatalf("parse: %v\n%s", err, src)
	}
	nz := NewNormaliser()
	nz.Register(fset, file)
	for _, k := range []string{"fmt.Sprintf", "strings.Join", "strconv.Itoa", "Len", "Has", "name"} {
		nz.Pure[k] = true
	}
	nz.Volatile = map[string]bool{"Len": true, "Has": true}
	nz.Known[f] = true
	nz.Known["known"] = true
	nz.Fold = []string{"name"}
	nf, err := nz.Normalise(nz.Funcs[f], FuncSpec{})
	if err != nil {
		t.Fatal(err)
	}
	return nf.Text
}

type pair struct{ what, a, b string }

// rewrites that must NOT change the canonical form (both directions: each side normalises to the same text)
var same = []pair{
	{"switch = if chain", `func f(pt string) (a, b bool) { for _, x := range []string{pt} { switch x { case "I": a = true; case "E": b = true } }; return }`,
		`func f(pt string) (a, b bool) { for _, x := range []string{pt} { if x == "I" { a = true } else if x == "E" { b = true } }; return }`},
	{"multi-value case = ||", `func f(x int) int { switch x { case 1, 2: return 1 }; return 0 }`,
		`func f(x int) int { if x == 1 || x == 2 { return 1 }; return 0 }`},
	{"index loop = value loop", `func f(xs []T) { for i := range xs { if xs[i].ip == "" { continue }; use(xs[i].ip) } }`,
		`func f(xs []T) { for _, x := range xs { // skip
			if x.ip == "" { continue }; use(x.ip) } }`},
	{"three-clause loop = range", `func f(xs []T) { for i := 0; i < len(xs); i++ { use(i, xs[i]) } }`,
		`func f(xs []T) { for k, v := range xs { use(k, v) } }`},
	{"element local = value variable", `func f(xs []T) { for i := range xs { v := xs[i]; use(v.a, v.b) } }`,
		`func f(xs []T) { for _, e := range xs { use(e.a, e.b) } }`},
	{"renamed locals and parameters", `func f(a int, bs []int) int { total := 0; for _, b := range bs { total += a * b }; return total }`,
		`func f(k int, list []int) int { s := 0; for _, el := range list { s += k * el }; return s }`},
	{"renamed receiver", `func (p *M) f(x int) { p.a(x); p.b.c(x) }`, `func (m *M) f(n int) { m.a(n); m.b.c(n) }`},
	{"guard clause = nested if (loop)", `func f(xs []T) { for _, x := range xs { if !x.ok { continue }; use(x) } }`,
		`func f(xs []T) { for _, x := range xs { if x.ok { use(x) } } }`},
	{"guard clause = nested if (function tail)", `func f(x T) { if x.n == 0 { return }; use(x) }`, `func f(x T) { if x.n != 0 { use(x) } }`},
	{"guard clause = nested if (constant return)", `func f(x T) error { if x.n == 0 { return nil }; use(x); return nil }`,
		`func f(x T) error { if x.n != 0 { use(x) }; return nil }`},
	{"nested ifs = conjunction, either order", `func f(x T) { for { if x.a { if x.b { use(x) } } } }`, `func f(x T) { for { if x.b && x.a { use(x) } } }`},
	{"guard on disjunction = two guards", `func f(xs []T) { for _, x := range xs { if x.a || x.b { continue }; use(x) } }`,
		`func f(xs []T) { for _, x := range xs { if x.a { continue }; if x.b { continue }; use(x) } }`},
	{"De Morgan, negated comparison", `func f(a, b int, c bool) { if !(a == b || c) { use() } else { other() } }`,
		`func f(a, b int, c bool) { if a != b && !c { use() } else { other() } }`},
	{"literal on the left", `func f(s string) bool { return "" == s }`, `func f(s string) bool { return s == "" }`},
	{"else after return", `func f(c bool) int { if c { return 1 } else { return 2 } }`, `func f(c bool) int { if c { return 1 }; return 2 }`},
	{"if with init", `func f() error { if err := g(); err != nil { return err }; return nil }`, `func f() error { err := g(); if err != nil { return err }; return nil }`},
	{"inlined local", `func f(p T) { c := fmt.Sprintf("%s_%s", p.a, p.b); w("-m", c); w("-j", c) }`,
		`func f(p T) { w("-m", fmt.Sprintf("%s_%s", p.a, p.b)); w("-j", fmt.Sprintf("%s_%s", p.a, p.b)) }`},
	{"named boolean", `func f(p T) { empty := len(p.a) == 0 && len(p.b) == 0; if empty { use() } else { other() } }`,
		`func f(p T) { if len(p.b) == 0 && len(p.a) == 0 { use() } else { other() } }`},
	{"var with initialiser", `func f() { var a, b = g(), h(); use(a, b) }`, `func f() { a := g(); b := h(); use(a, b) }`},
	{"Sprintf = concatenation", `func f(a, b string, i int) string { return fmt.Sprintf("%s-sip-%d-%s", a, i, b) }`,
		`func f(a, b string, i int) string { return a + "-sip-" + strconv.Itoa(i) + "-" + b }`},
	{"nested Sprintf", `func f(a, b, c string) string { return fmt.Sprintf("%s-%s", a, fmt.Sprintf("%s_%s", b, c)) }`,
		`func f(a, b, c string) string { return fmt.Sprintf("%s-%s_%s", a, b, c) }`},
	{"comments, logs, message texts", `func f(x T) error { // do it
		glog.V(4).Infof("doing %v", x); if err := g(x); err != nil { glog.Warningf("bad"); return fmt.Errorf("failed to g: %v", err) }; return nil }`,
		`func f(x T) error { if err := g(x); err != nil { return fmt.Errorf("g failed for %v: %w", x, err) }; if glog.V(5) { glog.Info("done") }; return nil }`},
	{"log-only branch", `func f(x T) { err := g(x); if err != nil { glog.Warning(err) }; h(x) }`, `func f(x T) { err := g(x); h(x) }`},
	{"extracted helper (statements)", `func f(x T) { a(x); helper(x, 1); d(x) }
		func helper(y T, n int) { b(y, n); c(y) }`, `func f(x T) { a(x); b(x, 1); c(x); d(x) }`},
	{"extracted helper (value)", `func f(x T) int { v := mk(x); return v + 1 }
		func mk(y T) int { return y.n * 2 }`, `func f(x T) int { return x.n*2 + 1 }`},
	{"known helper inlined by hand", `func f(p T) { w(name(p.np)) }
		func name(q *N) string { return fmt.Sprintf("%s-%s", prefix, q.Name) }`, `func f(p T) { w(prefix + "-" + p.np.Name) }
		func name(q *N) string { return fmt.Sprintf("%s-%s", prefix, q.Name) }`},
	{"writeLine inlined by hand", `func f(b *B, ws []string) { writeLine(b, ws...) }`, `func f(b *B, ws []string) { b.WriteString(strings.Join(ws, " ") + "\n") }`},
	{"grouped var", `func f() []int { var ( a []int; b []int ); a = append(a, 1); b = append(b, 2); return append(a, b...) }`,
		`func f() []int { var a []int; var b []int; a = append(a, 1); b = append(b, 2); return append(a, b...) }`},
	{"slice literal only spread", `func f(a, b string) { set := []string{"-m", a}; x := []string{"-A", b}; x = append(x, set...); w(x...) }`,
		`func f(a, b string) { x := []string{"-A", b}; x = append(x, []string{"-m", a}...); w(x...) }`},
}

// changes that MUST change the canonical form
var differ = []pair{
	{"operator", `func f(a int) bool { return a > 0 }`, `func f(a int) bool { return a >= 0 }`},
	{"constant", `func f() int { return 15 }`, `func f() int { return 16 }`},
	{"rule word order", `func f() { w("-j", "ACCEPT") }`, `func f() { w("ACCEPT", "-j") }`},
	{"order of side-effecting calls", `func f() { a(); b() }`, `func f() { b(); a() }`},
	{"operands of && with calls keep their order", `func f() { if a() && b() { c() } else { d() } }`, `func f() { if b() && a() { c() } else { d() } }`},
	{"dropped guard", `func f(xs []T) { for _, x := range xs { if x.skip { continue }; use(x) } }`, `func f(xs []T) { for _, x := range xs { use(x) } }`},
	{"moved guard", `func f(xs []T) { for _, x := range xs { if x.skip { continue }; a(x); b(x) } }`,
		`func f(xs []T) { for _, x := range xs { a(x); if x.skip { continue }; b(x) } }`},
	{"call moved across a lock", `func f(m *M) { m.Lock(); a(); m.Unlock(); b() }`, `func f(m *M) { m.Lock(); a(); b(); m.Unlock() }`},
	{"argument of a call", `func f(x T) { g(x.a, true) }`, `func f(x T) { g(x.a, false) }`},
	{"error class", `func f() error { if bad() { return fmt.Errorf("x") }; return nil }`, `func f() error { if bad() { return nil }; return nil }`},
	{"switch branch bodies swapped", `func f(x string) (a, b bool) { switch x { case "I": a = true; case "E": b = true }; return }`,
		`func f(x string) (a, b bool) { switch x { case "I": b = true; case "E": a = true }; return }`},
	{"element written: no value loop", `func f(xs []T) { for i := range xs { xs[i].n = 1 } }`, `func f(xs []T) { for _, x := range xs { x.n = 1 } }`},
	{"a map has an identity", `func f() { m := map[string]bool{}; a(m); b(m) }`, `func f() { a(map[string]bool{}); b(map[string]bool{}) }`},
	{"volatile value is not inlined", `func f(s S) { n := s.Len(); s.Insert(1); use(n) }`, `func f(s S) { s.Insert(1); use(s.Len()) }`},
	{"shared words of two rules", `func f(ps [][]string) { for _, p := range ps { a := []string{"-A"}; a = append(a, p...); w(a...) } }`,
		`func f(ps [][]string) { a := []string{"-A"}; for _, p := range ps { a = append(a, p...); w(a...) } }`},
	{"format", `func f(a, b string) string { return fmt.Sprintf("%s-%s", a, b) }`, `func f(a, b string) string { return fmt.Sprintf("%s_%s", a, b) }`},
}

func TestNormaliserSame(t *testing.T) {
	for _, p := range same {
		a, b := norm(t, p.a, "f"), norm(t, p.b, "f")
		if a != b {
			t.Errorf("%s: canonical forms differ\n  %s\n  %s", p.what, a, b)
		}
	}
}

func TestNormaliserDiffer(t *testing.T) {
	for _, p := range differ {
		a, b := norm(t, p.a, "f"), norm(t, p.b, "f")
		if a == b {
			t.Errorf("%s: canonical forms are equal: %s", p.what, a)
		}
	}
}

// ---- whole translator on rewritten copies of pkg/policy

func repoDir() string {
	if r := os.Getenv("GALAXY_REPO"); r != "" {
		return r
	}
	return "/repo"
}

type edit struct{ file, old, new string }

func rewritten(t *testing.T, edits []edit) string {
	t.Helper()
	dir := t.TempDir()
	for _, rel := range []string{srcPolicy, srcEvent} {
		raw, err := os.ReadFile(filepath.Join(repoDir(), rel))
		if err != nil {
			t.Skipf("no source tree: %v", err)
		}
		s := string(raw)
		for _, e := range edits {
			if e.file != rel {
				continue
			}
			if !strings.Contains(s, e.old) {
				t.Fatalf("edit does not apply to %s: %q", rel, e.old)
			}
			s = strings.ReplaceAll(s, e.old, e.new)
		}
		if err := os.MkdirAll(filepath.Join(dir, filepath.Dir(rel)), 0o755); err != nil {
			t.Fatal(err)
		}
		if err := os.WriteFile(filepath.Join(dir, rel), []byte(s), 0o644); err != nil {
			t.Fatal(err)
		}
	}
	return dir
}

var harmlessEdits = map[string][]edit{
	"H14 switch + value loop": {
		{srcPolicy, "if pt == networkv1.PolicyTypeIngress {\n\t\t\tingress = true\n\t\t} else if pt == networkv1.PolicyTypeEgress {",
			"switch pt {\n\t\tcase networkv1.PolicyTypeIngress:\n\t\t\tingress = true\n\t\tcase networkv1.PolicyTypeEgress:"},
		{srcPolicy, "for i := range pods {\n\t\tif pods[i].Status.PodIP == \"\" {", "for _, pod := range pods {\n\t\t// not yet\n\t\tif pod.Status.PodIP == \"\" {"},
		{srcPolicy, "ipset.Entry{IP: pods[i].Status.PodIP, SetType: setType}", "ipset.Entry{IP: pod.Status.PodIP, SetType: setType}"},
	},
	"renamed locals": {
		{srcPolicy, "podNameComment", "cm"}, {srcPolicy, "filteredIngressPolicy", "inSel"}, {srcPolicy, "filteredEgressPolicy", "outSel"},
		{srcPolicy, "npNameHash", "h"}, {srcPolicy, "formatedCidr", "fc"}, {srcPolicy, "oldEntriesSet", "have"},
		{srcPolicy, "newEntryKeys", "keys"}, {srcPolicy, "setRules", "matchSets"}, {srcPolicy, "srcTableName ", "from "},
		{srcPolicy, "srcTableName,", "from,"}, {srcPolicy, "existingChains", "present"},
		{srcPolicy, "tcpPorts, udpPorts := rulePorts(ports)\n\trule := rule{tcpPorts: tcpPorts, udpPorts: udpPorts}", "tp, up := rulePorts(ports)\n\trule := rule{tcpPorts: tp, udpPorts: up}"},
	},
	"guards instead of nesting and back": {
		{srcPolicy, "if npp[j].Port != nil {\n\t\t\tif protocol == \"tcp\" {", "if npp[j].Port == nil {\n\t\t\tcontinue\n\t\t}\n\t\t{\n\t\t\tif protocol == \"tcp\" {"},
		{srcPolicy, "if !strings.HasPrefix(name, NamePrefix) {\n\t\t\t\tcontinue\n\t\t\t}\n\t\t\tif _, exist := newIPSetMap[name]; !exist {",
			"if _, exist := newIPSetMap[name]; strings.HasPrefix(name, NamePrefix) && !exist {"},
		{srcPolicy, "if !ingress && !egress {", "if !(ingress || egress) {"},
		{srcPolicy, "if policy.np.Namespace != pod.Namespace {\n\t\t\tcontinue\n\t\t}\n\t\tpodLabelSelector, err :=", "podLabelSelector, err :="},
		{srcPolicy, "filteredIngressPolicy.Insert(i)", "if policy.np.Namespace == pod.Namespace {\n\t\t\t\t\tfilteredIngressPolicy.Insert(i)\n\t\t\t\t}"},
		{srcPolicy, "if policy.egressRule != nil {\n\t\t\tif podLabelSelector.Matches(labels.Set(pod.Labels)) {",
			"if policy.np.Namespace == pod.Namespace && podLabelSelector.Matches(labels.Set(pod.Labels)) {\n\t\t\tif policy.egressRule != nil {"},
	},
	"H32-H34: switch in peerRule, named condition, extracted handler body": {
		{srcPolicy, "if tbl.SetType == ipset.HashIP {\n\t\t\tif rule.ipTable == nil {", "switch tbl.SetType {\n\t\tcase ipset.HashIP:\n\t\t\tif rule.ipTable == nil {"},
		{srcPolicy, "\t\t} else if tbl.SetType == ipset.HashNet {\n", "\t\t// other types are ignored\n\t\tcase ipset.HashNet:\n"},
		{srcPolicy, "if filteredIngressPolicy.Len() == 0 && filteredEgressPolicy.Len() == 0 {", "matchesNoPolicy := filteredIngressPolicy.Len() == 0 && filteredEgressPolicy.Len() == 0\n\tif matchesNoPolicy {"},
		{srcPolicy, `podNameComment := fmt.Sprintf("%s_%s", pod.Name, pod.Namespace)`, `podNameComment := pod.Name + "_" + pod.Namespace`},
		{srcEvent, "p.startPodInformerFactory()\n\t// if a policy is added, we should add policy chain before adding pod rules targeting this chain\n\tp.syncNetworkPolices()\n\tp.syncNetworkPolicyRules()\n\tp.syncPods()\n\treturn nil\n}",
			"p.startPodInformerFactory()\n\tp.syncPolicyRulesThenPods()\n\treturn nil\n}\n\nfunc (p *PolicyManager) syncPolicyRulesThenPods() {\n\tp.syncNetworkPolices()\n\tp.syncNetworkPolicyRules()\n\tp.syncPods()\n}"},
	},
	"string building, messages, helpers": {
		{srcPolicy, `fmt.Sprintf("%s-sip-%d-%s", NamePrefix, i, npNameHash)`, `NamePrefix + "-sip-" + strconv.Itoa(i) + "-" + npNameHash`},
		{srcPolicy, `fmt.Sprintf("%s_%s", pod.Name, pod.Namespace)`, `pod.Name + "_" + pod.Namespace`},
		{srcPolicy, `"failed to execute iptables-restore for ruls %s: %v", string(lines), err`, `"iptables-restore: %v", err`},
		{srcPolicy, "p.syncNetworkPolices()\n\tp.syncNetworkPolicyRules()\n\tp.syncPods()\n}\n\nfunc (p *PolicyManager) syncPods() {",
			"p.resyncAll()\n}\n\nfunc (p *PolicyManager) resyncAll() {\n\tp.syncNetworkPolices()\n\tp.syncNetworkPolicyRules()\n\tp.syncPods()\n}\n\nfunc (p *PolicyManager) syncPods() {"},
		{srcPolicy, `"-j", policyChainName(policies[i].np))`,
			`"-j", fmt.Sprintf("%s-%s", policyChainPrefix, nameHash(policies[i].np.Name+"_"+policies[i].np.Namespace)))`},
		{srcPolicy, "writeLine(filterRules, \"COMMIT\")\n\n\tlines := append(filterChains.Bytes(), filterRules.Bytes()...)\n\terr := p.iptableHandle.RestoreAll(lines, utiliptables.NoFlushTables, utiliptables.RestoreCounters)\n\tif err != nil {\n\t\treturn fmt.Errorf(\"iptables-restore: %v\", err)\n\t}\n\n\targs",
			"filterRules.WriteString(strings.Join([]string{\"COMMIT\"}, \" \") + \"\\n\")\n\n\tlines := append(filterChains.Bytes(), filterRules.Bytes()...)\n\terr := p.iptableHandle.RestoreAll(lines, utiliptables.NoFlushTables, utiliptables.RestoreCounters)\n\tif err != nil {\n\t\treturn fmt.Errorf(\"iptables-restore: %v\", err)\n\t}\n\n\targs"},
	},
}

// changes of behaviour: the translator must fail or emit something else
var harmfulEdits = map[string][]edit{
	"rule words swapped":             {{srcPolicy, "args = append(args, \"-j\", \"ACCEPT\")", "args = append(args, \"ACCEPT\", \"-j\")"}},
	"nomatch option":                 {{srcPolicy, `Options: []string{"nomatch"}`, `Options: []string{"nomatch2"}`}},
	"handler order":                  {{srcEvent, "p.syncNetworkPolices()\n\tp.syncPods()\n\tp.syncNetworkPolicyRules()", "p.syncNetworkPolices()\n\tp.syncNetworkPolicyRules()\n\tp.syncPods()"}},
	"default egress":                 {{srcPolicy, "egress = len(np.Spec.Egress) > 0", "egress = true"}},
	"rekey guard dropped":            {{srcPolicy, "if newEntryKeys.Has(parts[0]) {", "if false && newEntryKeys.Has(parts[0]) {"}},
	"chunk size":                     {{srcPolicy, "const maxMultiportPorts = 15", "const maxMultiportPorts = 16"}},
	"shared args across chunks":      {{srcPolicy, "\t\t\tfor i := 0; i < len(udpPorts); i += maxMultiportPorts {\n\t\t\t\tend := i + maxMultiportPorts\n\t\t\t\tif end > len(udpPorts) {\n\t\t\t\t\tend = len(udpPorts)\n\t\t\t\t}\n\t\t\t\targs := []string{\n\t\t\t\t\t\"-A\", policyChainName,\n\t\t\t\t\t\"-m\", \"comment\", \"--comment\", policyNameComment,\n\t\t\t\t\t\"-p\", \"udp\",\n\t\t\t\t}\n", "\t\t\targs := []string{\n\t\t\t\t\"-A\", policyChainName,\n\t\t\t\t\"-m\", \"comment\", \"--comment\", policyNameComment,\n\t\t\t\t\"-p\", \"udp\",\n\t\t\t}\n\t\t\tfor i := 0; i < len(udpPorts); i += maxMultiportPorts {\n\t\t\t\tend := i + maxMultiportPorts\n\t\t\t\tif end > len(udpPorts) {\n\t\t\t\t\tend = len(udpPorts)\n\t\t\t\t}\n"}},
	"peer precedence":                {{srcPolicy, "if peer.PodSelector != nil {\n\t\treturn p.podSelectorToTable(peer.PodSelector, v1.NamespaceAll)\n\t}\n\tif peer.NamespaceSelector != nil {\n\t\treturn p.namespaceSelectorToTable(peer.NamespaceSelector)\n\t}", "if peer.NamespaceSelector != nil {\n\t\treturn p.namespaceSelectorToTable(peer.NamespaceSelector)\n\t}\n\tif peer.PodSelector != nil {\n\t\treturn p.podSelectorToTable(peer.PodSelector, v1.NamespaceAll)\n\t}"}},
	"namespace filter dropped":       {{srcPolicy, "if policy.np.Namespace != pod.Namespace {\n\t\t\tcontinue\n\t\t}\n\t\tpodLabelSelector, err :=", "podLabelSelector, err :="}},
	"pod batch before base":          {{srcPolicy, "if pod.Status.PodIP == \"\" {\n\t\treturn nil\n\t}\n\tif err := p.ensureBasicChain(); err != nil {\n\t\treturn err\n\t}", "if err := p.ensureBasicChain(); err != nil {\n\t\treturn err\n\t}\n\tif pod.Status.PodIP == \"\" {\n\t\treturn nil\n\t}"}},
	"syncRules behind a guard":       {{srcPolicy, "if err := p.syncRules(policies); err != nil {", "if len(policies) == 0 {\n\t\treturn\n\t}\n\tif err := p.syncRules(policies); err != nil {"}},
	"hooks found by the pod comment": {{srcPolicy, "if err := p.deletePodRuleByKeyword(pod, ingressChain, string(podChain)); err != nil {", "if err := p.deletePodRuleByKeyword(pod, ingressChain, pod.Name+\"_\"+pod.Namespace); err != nil {"}},
	"every matching hook deleted":    {{srcPolicy, "\t\t\tpodLine = lines[i]\n\t\t\tbreak\n", "\t\t\tpodLine = lines[i]\n"}},
	"src and dst sets swapped":       {{srcPolicy, "\"-m\", \"set\", \"--match-set\", srcTableName, \"src\",\n\t\t\t\t\"-m\", \"set\", \"--match-set\", dstTableName, \"dst\"}", "\"-m\", \"set\", \"--match-set\", dstTableName, \"src\",\n\t\t\t\t\"-m\", \"set\", \"--match-set\", srcTableName, \"dst\"}"}},
}

func TestTranslatorHarmless(t *testing.T) {
	base, err := generate(rewritten(t, nil))
	if err != nil {
		t.Fatal(err)
	}
	for name, edits := range harmlessEdits {
		out, err := generate(rewritten(t, edits))
		if err != nil {
			t.Errorf("%s: translator fails: %v", name, err)
			continue
		}
		if out["Policy.lean"] != base["Policy.lean"] {
			a, b := strings.Split(base["Policy.lean"], "\n"), strings.Split(out["Policy.lean"], "\n")
			for i := range a {
				if i >= len(b) || a[i] != b[i] {
					other := ""
					if i < len(b) {
						other = b[i]
					}
					t.Errorf("%s: generated facts differ, first at line %d:\n  - %s\n  + %s", name, i+1, a[i], other)
					break
				}
			}
		}
	}
}

func TestTranslatorHarmful(t *testing.T) {
	base, err := generate(rewritten(t, nil))
	if err != nil {
		t.Fatal(err)
	}
	for name, edits := range harmfulEdits {
		out, err := generate(rewritten(t, edits))
		if err == nil && out["Policy.lean"] == base["Policy.lean"] {
			t.Errorf("%s: the change is invisible to the translator", name)
		}
	}
}

// TestDump prints the canonical form of every function the translator reads (POLICY_DUMP=1).
func TestDump(t *testing.T) {
	if os.Getenv("POLICY_DUMP") == "" {
		t.Skip("POLICY_DUMP not set")
	}
	g := &gen{nfs: map[string]*NF{}}
	var err error
	if g.p, err = parsed(repoDir(), srcPolicy); err != nil {
		t.Skip(err)
	}
	if g.ev, err = parsed(repoDir(), srcEvent); err != nil {
		t.Skip(err)
	}
	g.nz = newPolicyNormaliser(g.p, g.ev)
	for name := range g.nz.Specs {
		nf, err := g.fn(name)
		if err != nil {
			t.Errorf("%s: %v", name, err)
			continue
		}
		t.Logf("== %s\n%s", name, printNode(nf.Fset, nf.Decl))
	}
}
