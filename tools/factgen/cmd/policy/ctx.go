package main

import (
	"go/ast"
	"go/parser"
	"go/token"
	"reflect"
	"sort"
	"strings"
)

func parseExpr(s string) (ast.Expr, error) {
	e, err := parser.ParseExpr(s)
	if err != nil {
		return nil, err
	}
	flattenPos(reflect.ValueOf(e))
	return e, nil
}

var noFset = token.NewFileSet()

// txt: canonical one-line text of a node of a normalised function (positions are flattened there).
func txt(n ast.Node) string { return oneLine(printNode(noFset, n)) }

// event: one simple statement of a normalised function together with the conditions under which it is reached
// (conjuncts, in order of appearance; loops appear as `range X` / `for …`; guards contribute their negation).
type event struct {
	ctx  []string
	stmt ast.Stmt
	call *ast.CallExpr // the call of an expression statement / the single right-hand side of an assignment
}

func (e event) has(c string) bool {
	for _, x := range e.ctx {
		if x == c {
			return true
		}
	}
	return false
}

// conds: the conditions of the event that are not loop markers, sorted.
func (e event) conds() []string {
	var out []string
	for _, x := range e.ctx {
		if strings.HasPrefix(x, "for ") || strings.HasPrefix(x, "range ") || x == "defer" {
			continue
		}
		out = append(out, x)
	}
	sort.Strings(out)
	return out
}

func conjuncts(nz *Normaliser, e ast.Expr) []string {
	var out []string
	for _, c := range flattenOp(e, token.LAND) {
		cp := copyExpr(c)
		var r ast.Expr = cp
		w := &ast.ParenExpr{X: cp}
		mapExprs(w, func(z ast.Expr) ast.Expr { return nz.normBool(noFset, z) })
		r = stripParens(w.X)
		out = append(out, txt(r))
	}
	return out
}

func copyExpr(e ast.Expr) ast.Expr {
	x, err := parseExpr(txt(e))
	if err != nil {
		return e
	}
	return x
}

// events walks a statement list of a normalised function.
func events(nz *Normaliser, list []ast.Stmt, ctx []string) []event {
	var out []event
	add := func(c []string, more ...string) []string {
		return append(append([]string{}, c...), more...)
	}
	for _, s := range list {
		switch x := s.(type) {
		case *ast.IfStmt:
			pos := conjuncts(nz, x.Cond)
			neg := conjuncts(nz, negate(copyExpr(x.Cond)))
			out = append(out, events(nz, x.Body.List, add(ctx, pos...))...)
			switch e := x.Else.(type) {
			case *ast.BlockStmt:
				out = append(out, events(nz, e.List, add(ctx, neg...))...)
			case *ast.IfStmt:
				out = append(out, events(nz, []ast.Stmt{e}, add(ctx, neg...))...)
			case nil:
				if leaves(x.Body.List) {
					ctx = add(ctx, neg...)
				}
			}
		case *ast.RangeStmt:
			out = append(out, events(nz, x.Body.List, add(ctx, "range "+txt(x.X)))...)
		case *ast.ForStmt:
			h := "for "
			if x.Init != nil {
				h += txt(x.Init)
			}
			h += "; "
			if x.Cond != nil {
				h += txt(x.Cond)
			}
			h += "; "
			if x.Post != nil {
				h += txt(x.Post)
			}
			out = append(out, events(nz, x.Body.List, add(ctx, h))...)
		case *ast.BlockStmt:
			out = append(out, events(nz, x.List, ctx)...)
		case *ast.DeferStmt:
			out = append(out, event{ctx: add(ctx), stmt: s, call: x.Call})
			if fl, ok := x.Call.Fun.(*ast.FuncLit); ok {
				out = append(out, events(nz, fl.Body.List, add(ctx, "defer"))...)
			}
		case *ast.ExprStmt:
			c, _ := x.X.(*ast.CallExpr)
			out = append(out, event{ctx: add(ctx), stmt: s, call: c})
		case *ast.AssignStmt:
			var c *ast.CallExpr
			if len(x.Rhs) == 1 {
				c, _ = x.Rhs[0].(*ast.CallExpr)
			}
			out = append(out, event{ctx: add(ctx), stmt: s, call: c})
		case *ast.ReturnStmt:
			var c *ast.CallExpr
			if len(x.Results) == 1 {
				c, _ = x.Results[0].(*ast.CallExpr)
			}
			out = append(out, event{ctx: add(ctx), stmt: s, call: c})
		default:
			out = append(out, event{ctx: add(ctx), stmt: s})
		}
	}
	return out
}

func sameSet(a, b []string) bool {
	a, b = append([]string{}, a...), append([]string{}, b...)
	sort.Strings(a)
	sort.Strings(b)
	if len(a) != len(b) {
		return false
	}
	for i := range a {
		if a[i] != b[i] {
			return false
		}
	}
	return true
}
