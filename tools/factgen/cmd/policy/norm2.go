package main

import (
	"fmt"
	"go/ast"
	"go/token"
	"sort"
	"strconv"
	"strings"
)

// ---- generic expression rewriting ------------------------------------------------------------------------------------

// mapExprs rewrites every expression slot below n bottom-up with f (field names of selectors, keys of composite
// literals and the names on the left of := are not expressions in this sense).
func mapExprs(n ast.Node, f func(ast.Expr) ast.Expr) {
	var ex func(e ast.Expr) ast.Expr
	var st func(s ast.Stmt)
	exs := func(l []ast.Expr) {
		for i := range l {
			l[i] = ex(l[i])
		}
	}
	ex = func(e ast.Expr) ast.Expr {
		if e == nil {
			return nil
		}
		switch v := e.(type) {
		case *ast.BinaryExpr:
			v.X, v.Y = ex(v.X), ex(v.Y)
		case *ast.UnaryExpr:
			v.X = ex(v.X)
		case *ast.ParenExpr:
			v.X = ex(v.X)
		case *ast.StarExpr:
			v.X = ex(v.X)
		case *ast.CallExpr:
			v.Fun = ex(v.Fun)
			exs(v.Args)
		case *ast.SelectorExpr:
			v.X = ex(v.X)
		case *ast.IndexExpr:
			v.X, v.Index = ex(v.X), ex(v.Index)
		case *ast.SliceExpr:
			v.X, v.Low, v.High, v.Max = ex(v.X), ex(v.Low), ex(v.High), ex(v.Max)
		case *ast.TypeAssertExpr:
			v.X = ex(v.X)
		case *ast.KeyValueExpr:
			if _, ok := v.Key.(*ast.Ident); !ok {
				v.Key = ex(v.Key)
			}
			v.Value = ex(v.Value)
		case *ast.CompositeLit:
			exs(v.Elts)
		case *ast.FuncLit:
			st(v.Body)
		}
		return f(e)
	}
	st = func(s ast.Stmt) {
		switch v := s.(type) {
		case nil:
		case *ast.BlockStmt:
			if v == nil {
				return
			}
			for _, x := range v.List {
				st(x)
			}
		case *ast.ExprStmt:
			v.X = ex(v.X)
		case *ast.AssignStmt:
			if v.Tok != token.DEFINE {
				exs(v.Lhs)
			} else {
				for i, l := range v.Lhs {
					if _, ok := l.(*ast.Ident); !ok {
						v.Lhs[i] = ex(l)
					}
				}
			}
			exs(v.Rhs)
		case *ast.IncDecStmt:
			v.X = ex(v.X)
		case *ast.ReturnStmt:
			exs(v.Results)
		case *ast.IfStmt:
			st(v.Init)
			v.Cond = ex(v.Cond)
			st(v.Body)
			st(v.Else)
		case *ast.ForStmt:
			st(v.Init)
			v.Cond = ex(v.Cond)
			st(v.Post)
			st(v.Body)
		case *ast.RangeStmt:
			v.X = ex(v.X)
			st(v.Body)
		case *ast.SwitchStmt:
			st(v.Init)
			v.Tag = ex(v.Tag)
			st(v.Body)
		case *ast.CaseClause:
			exs(v.List)
			for _, x := range v.Body {
				st(x)
			}
		case *ast.DeferStmt:
			v.Call = ex(v.Call).(*ast.CallExpr)
		case *ast.GoStmt:
			v.Call = ex(v.Call).(*ast.CallExpr)
		case *ast.LabeledStmt:
			st(v.Stmt)
		case *ast.DeclStmt:
			if gd, ok := v.Decl.(*ast.GenDecl); ok {
				for _, sp := range gd.Specs {
					if vs, ok := sp.(*ast.ValueSpec); ok {
						exs(vs.Values)
					}
				}
			}
		}
	}
	switch v := n.(type) {
	case ast.Stmt:
		st(v)
	case ast.Expr:
		ex(v)
	}
}

func usesIdent(n ast.Node, name string) bool {
	u := false
	mapExprs(n, func(e ast.Expr) ast.Expr {
		if id, ok := e.(*ast.Ident); ok && id.Name == name {
			u = true
		}
		return e
	})
	return u
}

// ---- 4. flattening and guards -------------------------------------------------------------------------------------------

func isTerminator(s ast.Stmt) bool {
	switch x := s.(type) {
	case *ast.ReturnStmt:
		return true
	case *ast.BranchStmt:
		return x.Tok == token.CONTINUE || x.Tok == token.BREAK || x.Tok == token.GOTO
	case *ast.ExprStmt:
		if c, ok := x.X.(*ast.CallExpr); ok && calleeText(c) == "panic" {
			return true
		}
	}
	return false
}

// leaves: the statement list always leaves the enclosing sequence.
func leaves(list []ast.Stmt) bool {
	if len(list) == 0 {
		return false
	}
	switch x := list[len(list)-1].(type) {
	case *ast.IfStmt:
		if x.Else == nil {
			return false
		}
		var el []ast.Stmt
		switch e := x.Else.(type) {
		case *ast.BlockStmt:
			el = e.List
		default:
			el = []ast.Stmt{e}
		}
		return leaves(x.Body.List) && leaves(el)
	case *ast.BlockStmt:
		return leaves(x.List)
	default:
		return isTerminator(x)
	}
}

func flatten(list []ast.Stmt) []ast.Stmt {
	var out []ast.Stmt
	for _, s := range list {
		forBlocks(s, func(b *ast.BlockStmt) { b.List = flatten(b.List) })
		switch x := s.(type) {
		case *ast.BlockStmt:
			out = append(out, x.List...)
			continue
		case *ast.IfStmt:
			if x.Init != nil {
				out = append(out, x.Init)
				x.Init = nil
			}
			if x.Else != nil && len(x.Body.List) == 0 {
				// if c {} else B  ==  if !c B
				switch e := x.Else.(type) {
				case *ast.BlockStmt:
					x.Cond, x.Body, x.Else = negate(x.Cond), e, nil
				case *ast.IfStmt:
					x.Cond, x.Body, x.Else = &ast.BinaryExpr{X: paren(negate(x.Cond)), Op: token.LAND, Y: paren(e.Cond)}, e.Body, e.Else
				}
			}
			if eb, ok := x.Else.(*ast.BlockStmt); ok {
				if len(eb.List) == 0 {
					x.Else = nil
				} else if inner, ok := eb.List[0].(*ast.IfStmt); ok && len(eb.List) == 1 && inner.Init == nil {
					x.Else = inner
				}
			}
			if x.Else != nil && leaves(x.Body.List) {
				el := x.Else
				x.Else = nil
				out = append(out, x)
				switch e := el.(type) {
				case *ast.BlockStmt:
					out = append(out, e.List...)
				default:
					out = append(out, flatten([]ast.Stmt{e})...)
				}
				continue
			}
			if x.Else == nil && len(x.Body.List) == 0 && callFree(x.Cond) {
				continue // nothing happens (what was there was logging)
			}
			// if a { if b { … } }  ==  if a && b { … }
			if x.Else == nil && len(x.Body.List) == 1 {
				if inner, ok := x.Body.List[0].(*ast.IfStmt); ok && inner.Init == nil && inner.Else == nil {
					x.Cond = &ast.BinaryExpr{X: paren(x.Cond), Op: token.LAND, Y: paren(inner.Cond)}
					x.Body = inner.Body
				}
			}
		}
		out = append(out, s)
	}
	return out
}

func callFree(e ast.Expr) bool {
	free := true
	ast.Inspect(e, func(n ast.Node) bool {
		if c, ok := n.(*ast.CallExpr); ok {
			switch calleeText(c) {
			case "len", "cap", "string":
			default:
				free = false
			}
		}
		return free
	})
	return free
}

func paren(e ast.Expr) ast.Expr {
	switch e.(type) {
	case *ast.Ident, *ast.SelectorExpr, *ast.CallExpr, *ast.BasicLit, *ast.IndexExpr, *ast.ParenExpr:
		return e
	}
	return &ast.ParenExpr{X: e}
}

type tailKind int

const (
	tailNone tailKind = iota
	tailLoop
	tailFunc
)

func isConstExpr(e ast.Expr) bool {
	switch x := e.(type) {
	case *ast.BasicLit:
		return true
	case *ast.Ident:
		return x.Name == "nil" || x.Name == "true" || x.Name == "false"
	}
	return false
}

func constReturn(s ast.Stmt) bool {
	r, ok := s.(*ast.ReturnStmt)
	if !ok {
		return false
	}
	for _, e := range r.Results {
		if !isConstExpr(e) {
			return false
		}
	}
	return true
}

// guards brings the tail of loop bodies / function bodies into guard form (see the header of norm.go).
func guards(fset *token.FileSet, list []ast.Stmt, kind tailKind, hasResults bool) []ast.Stmt {
	for _, s := range list {
		switch x := s.(type) {
		case *ast.ForStmt:
			x.Body.List = guards(fset, x.Body.List, tailLoop, false)
		case *ast.RangeStmt:
			x.Body.List = guards(fset, x.Body.List, tailLoop, false)
		default:
			forBlocks(s, func(b *ast.BlockStmt) { b.List = guards(fset, b.List, tailNone, false) })
			ast.Inspect(s, func(n ast.Node) bool {
				if fl, ok := n.(*ast.FuncLit); ok {
					hr := fl.Type.Results != nil && len(fl.Type.Results.List) > 0
					fl.Body.List = guards(fset, fl.Body.List, tailFunc, hr)
					return false
				}
				return true
			})
		}
	}
	n := len(list)
	// a trailing `continue` of a loop body / bare `return` of a function without results says nothing
	if n > 0 {
		if b, ok := list[n-1].(*ast.BranchStmt); ok && kind == tailLoop && b.Tok == token.CONTINUE && b.Label == nil {
			list, n = list[:n-1], n-1
		} else if r, ok := list[n-1].(*ast.ReturnStmt); ok && kind == tailFunc && !hasResults && len(r.Results) == 0 {
			list, n = list[:n-1], n-1
		}
	}
	var term ast.Stmt
	at := -1
	switch {
	case kind == tailLoop && n > 0:
		term, at = &ast.BranchStmt{Tok: token.CONTINUE}, n-1
	case kind == tailFunc && !hasResults && n > 0:
		term, at = &ast.ReturnStmt{}, n-1
	case kind == tailFunc && hasResults && n > 1 && constReturn(list[n-1]):
		term, at = list[n-1], n-2
	}
	if at >= 0 {
		if is, ok := list[at].(*ast.IfStmt); ok && is.Init == nil && is.Else == nil && !leaves(is.Body.List) {
			g := &ast.IfStmt{Cond: negate(is.Cond), Body: &ast.BlockStmt{List: []ast.Stmt{term}}}
			out := append([]ast.Stmt{}, list[:at]...)
			out = append(out, g)
			out = append(out, is.Body.List...)
			out = append(out, list[at+1:]...)
			list = out
		}
	}
	// one guard per disjunct; adjacent side-effect-free guards with the same exit are a set
	var out []ast.Stmt
	for _, s := range list {
		is, ok := s.(*ast.IfStmt)
		if ok && is.Init == nil && is.Else == nil && len(is.Body.List) == 1 && isTerminator(is.Body.List[0]) &&
			(constReturn(is.Body.List[0]) || func() bool { _, b := is.Body.List[0].(*ast.BranchStmt); return b }()) {
			for _, d := range flattenOp(stripParens(is.Cond), token.LOR) {
				out = append(out, &ast.IfStmt{Cond: d, Body: &ast.BlockStmt{List: []ast.Stmt{is.Body.List[0]}}})
			}
			continue
		}
		out = append(out, s)
	}
	key := func(s ast.Stmt) (string, string, bool) {
		is, ok := s.(*ast.IfStmt)
		if !ok || is.Init != nil || is.Else != nil || len(is.Body.List) != 1 || !isTerminator(is.Body.List[0]) || !callFree(is.Cond) {
			return "", "", false
		}
		return oneLine(printNode(fset, is.Body.List[0])), oneLine(printNode(fset, is.Cond)), true
	}
	for i := 0; i < len(out); {
		t, _, ok := key(out[i])
		if !ok {
			i++
			continue
		}
		j := i + 1
		for j < len(out) {
			if t2, _, ok2 := key(out[j]); !ok2 || t2 != t {
				break
			}
			j++
		}
		run := out[i:j]
		sort.SliceStable(run, func(a, b int) bool {
			_, ca, _ := key(run[a])
			_, cb, _ := key(run[b])
			return ca < cb
		})
		i = j
	}
	return out
}

// ---- boolean normal form -------------------------------------------------------------------------------------------------

func stripParens(e ast.Expr) ast.Expr {
	for {
		p, ok := e.(*ast.ParenExpr)
		if !ok {
			return e
		}
		e = p.X
	}
}

func flattenOp(e ast.Expr, op token.Token) []ast.Expr {
	e = stripParens(e)
	if b, ok := e.(*ast.BinaryExpr); ok && b.Op == op {
		return append(flattenOp(b.X, op), flattenOp(b.Y, op)...)
	}
	return []ast.Expr{e}
}

var flipCmp = map[token.Token]token.Token{token.EQL: token.NEQ, token.NEQ: token.EQL, token.LSS: token.GEQ,
	token.GEQ: token.LSS, token.GTR: token.LEQ, token.LEQ: token.GTR}
var mirrorCmp = map[token.Token]token.Token{token.EQL: token.EQL, token.NEQ: token.NEQ, token.LSS: token.GTR,
	token.GTR: token.LSS, token.LEQ: token.GEQ, token.GEQ: token.LEQ}

// negate returns the negation of a boolean expression with the negation pushed inwards.
func negate(e ast.Expr) ast.Expr {
	e = stripParens(e)
	switch x := e.(type) {
	case *ast.UnaryExpr:
		if x.Op == token.NOT {
			return stripParens(x.X)
		}
	case *ast.BinaryExpr:
		if f, ok := flipCmp[x.Op]; ok {
			return &ast.BinaryExpr{X: x.X, Op: f, Y: x.Y}
		}
		if x.Op == token.LAND || x.Op == token.LOR {
			op := token.LOR
			if x.Op == token.LOR {
				op = token.LAND
			}
			return &ast.BinaryExpr{X: paren(negate(x.X)), Op: op, Y: paren(negate(x.Y))}
		}
	case *ast.Ident:
		if x.Name == "true" {
			return ast.NewIdent("false")
		}
		if x.Name == "false" {
			return ast.NewIdent("true")
		}
	}
	return &ast.UnaryExpr{Op: token.NOT, X: paren(e)}
}

func prec(e ast.Expr) int {
	switch x := e.(type) {
	case *ast.BinaryExpr:
		return x.Op.Precedence()
	case *ast.UnaryExpr, *ast.StarExpr:
		return 6
	}
	return 7
}

// normBool: one node of the boolean normal form (children already normalised).
func (nz *Normaliser) normBool(fset *token.FileSet, e ast.Expr) ast.Expr {
	switch x := e.(type) {
	case *ast.ParenExpr:
		in := stripParens(x.X)
		switch in.(type) {
		case *ast.BinaryExpr, *ast.UnaryExpr, *ast.StarExpr, *ast.KeyValueExpr, *ast.FuncLit, *ast.TypeAssertExpr, *ast.CompositeLit:
			x.X = in
			return x
		}
		return in
	case *ast.UnaryExpr:
		if x.Op == token.NOT {
			in := stripParens(x.X)
			switch y := in.(type) {
			case *ast.BinaryExpr:
				if _, ok := flipCmp[y.Op]; ok || y.Op == token.LAND || y.Op == token.LOR {
					r := negate(in)
					mapExprs(r, func(z ast.Expr) ast.Expr { return nz.normBool(fset, z) })
					return nz.normBool(fset, r)
				}
			case *ast.UnaryExpr:
				if y.Op == token.NOT {
					return stripParens(y.X)
				}
			}
		}
	case *ast.BinaryExpr:
		if m, ok := mirrorCmp[x.Op]; ok {
			if isConstExpr(stripParens(x.X)) && !isConstExpr(stripParens(x.Y)) {
				x.X, x.Y, x.Op = x.Y, x.X, m
			}
			return x
		}
		if x.Op == token.LAND || x.Op == token.LOR {
			ops := flattenOp(x, x.Op)
			pure := true
			for _, o := range ops {
				if !nz.pureExpr(o) {
					pure = false
				}
			}
			if pure {
				sort.SliceStable(ops, func(i, j int) bool {
					return oneLine(printNode(fset, ops[i])) < oneLine(printNode(fset, ops[j]))
				})
			}
			var r ast.Expr
			for _, o := range ops {
				if prec(o) <= x.Op.Precedence() {
					o = &ast.ParenExpr{X: o}
				}
				if r == nil {
					r = o
				} else {
					r = &ast.BinaryExpr{X: r, Op: x.Op, Y: o}
				}
			}
			// the first operand needs no parentheses when it binds at least as tight as the operator
			return r
		}
	}
	return e
}

func (nz *Normaliser) simplifyConds(fset *token.FileSet, n ast.Node) {
	mapExprs(n, func(e ast.Expr) ast.Expr { return nz.normBool(fset, e) })
	// statement-level conditions carry no parentheses
	ast.Inspect(n, func(x ast.Node) bool {
		switch v := x.(type) {
		case *ast.IfStmt:
			v.Cond = stripParens(v.Cond)
		case *ast.ForStmt:
			if v.Cond != nil {
				v.Cond = stripParens(v.Cond)
			}
		}
		return true
	})
}

// reparen drops every pair of parentheses and puts back exactly those the grammar needs.
func reparen(n ast.Node) {
	mapExprs(n, func(e ast.Expr) ast.Expr {
		if p, ok := e.(*ast.ParenExpr); ok {
			return p.X
		}
		return e
	})
	wrap := func(e ast.Expr, need func(ast.Expr) bool) ast.Expr {
		if e != nil && need(e) {
			return &ast.ParenExpr{X: e}
		}
		return e
	}
	operand := func(e ast.Expr) bool { // operand of a postfix operator
		switch e.(type) {
		case *ast.BinaryExpr, *ast.UnaryExpr, *ast.StarExpr, *ast.KeyValueExpr:
			return true
		}
		return false
	}
	mapExprs(n, func(e ast.Expr) ast.Expr {
		switch x := e.(type) {
		case *ast.BinaryExpr:
			p := x.Op.Precedence()
			x.X = wrap(x.X, func(c ast.Expr) bool { b, ok := c.(*ast.BinaryExpr); return ok && b.Op.Precedence() < p })
			x.Y = wrap(x.Y, func(c ast.Expr) bool { b, ok := c.(*ast.BinaryExpr); return ok && b.Op.Precedence() <= p })
		case *ast.UnaryExpr:
			x.X = wrap(x.X, func(c ast.Expr) bool { _, ok := c.(*ast.BinaryExpr); return ok })
		case *ast.StarExpr:
			x.X = wrap(x.X, func(c ast.Expr) bool { _, ok := c.(*ast.BinaryExpr); return ok })
		case *ast.SelectorExpr:
			x.X = wrap(x.X, operand)
		case *ast.IndexExpr:
			x.X = wrap(x.X, operand)
		case *ast.SliceExpr:
			x.X = wrap(x.X, operand)
		case *ast.TypeAssertExpr:
			x.X = wrap(x.X, operand)
		case *ast.CallExpr:
			x.Fun = wrap(x.Fun, operand)
		}
		return e
	})
	// a composite literal in a statement header needs parentheses
	hdr := func(e ast.Expr) {
		if e == nil {
			return
		}
		mapExprs(&ast.ParenExpr{X: e}, func(c ast.Expr) ast.Expr {
			if cl, ok := c.(*ast.CompositeLit); ok {
				switch cl.Type.(type) {
				case *ast.Ident, *ast.SelectorExpr:
					return &ast.ParenExpr{X: cl}
				}
			}
			return c
		})
	}
	ast.Inspect(n, func(x ast.Node) bool {
		switch v := x.(type) {
		case *ast.IfStmt:
			hdr(v.Cond)
		case *ast.ForStmt:
			hdr(v.Cond)
		case *ast.RangeStmt:
			hdr(v.X)
		case *ast.SwitchStmt:
			hdr(v.Tag)
		}
		return true
	})
}

// unspread: `f(a, []T{x, y}...)` is `f(a, x, y)`.
func unspread(n ast.Node) {
	mapExprs(n, func(e ast.Expr) ast.Expr {
		c, ok := e.(*ast.CallExpr)
		if !ok || c.Ellipsis == token.NoPos || len(c.Args) == 0 {
			return e
		}
		cl, ok := stripParens(c.Args[len(c.Args)-1]).(*ast.CompositeLit)
		if !ok {
			return e
		}
		if at, ok := cl.Type.(*ast.ArrayType); !ok || at.Len != nil {
			return e
		}
		for _, el := range cl.Elts {
			if _, kv := el.(*ast.KeyValueExpr); kv {
				return e
			}
		}
		c.Args = append(c.Args[:len(c.Args)-1], cl.Elts...)
		c.Ellipsis = token.NoPos
		return e
	})
}

// ---- 5. inlining of single-assignment locals --------------------------------------------------------------------------

func (nz *Normaliser) isPureCallee(t string) bool {
	if nz.Pure[t] || nz.Pure[lastName(t)] {
		return true
	}
	switch t {
	case "len", "cap", "string", "int", "int32", "int64", "uint32", "uint64", "float64", "bool", "byte", "newError":
		return true
	}
	return false
}

func (nz *Normaliser) pureExpr(e ast.Expr) bool {
	pure := true
	ast.Inspect(e, func(n ast.Node) bool {
		switch x := n.(type) {
		case *ast.CallExpr:
			if _, ok := x.Fun.(*ast.ArrayType); ok { // []byte(x)
				return true
			}
			if !nz.isPureCallee(calleeText(x)) {
				pure = false
			}
		case *ast.FuncLit:
			pure = false
		case *ast.UnaryExpr:
			if x.Op == token.ARROW {
				pure = false
			}
		}
		return pure
	})
	return pure
}

// volatileExpr: the expression reads the state of an object (`s.Len()`, `s.Has(x)`, `b.Bytes()`) that the statements
// after its definition may change (the object is the receiver of a call that is not side-effect free, an argument of
// such a call, assigned to, or its address is taken).
func (nz *Normaliser) volatileExpr(e ast.Expr, rest []ast.Stmt) bool {
	roots := map[string]bool{}
	ast.Inspect(e, func(n ast.Node) bool {
		if c, ok := n.(*ast.CallExpr); ok && nz.Volatile[lastName(calleeText(c))] {
			if sel, ok := c.Fun.(*ast.SelectorExpr); ok {
				if r := rootIdent(sel.X); r != "" {
					roots[r] = true
				} else {
					roots["?"] = true
				}
			}
		}
		return true
	})
	if len(roots) == 0 {
		return false
	}
	if roots["?"] {
		return true
	}
	v := false
	for _, s := range rest {
		ast.Inspect(s, func(n ast.Node) bool {
			switch x := n.(type) {
			case *ast.CallExpr:
				if nz.isPureCallee(calleeText(x)) {
					return true
				}
				if sel, ok := x.Fun.(*ast.SelectorExpr); ok && roots[rootIdent(sel.X)] {
					v = true
				}
				for _, a := range x.Args {
					if roots[rootIdent(a)] {
						v = true
					}
					if u, ok := a.(*ast.UnaryExpr); ok && u.Op == token.AND && roots[rootIdent(u.X)] {
						v = true
					}
				}
			case *ast.AssignStmt:
				for _, l := range x.Lhs {
					if roots[rootIdent(l)] {
						v = true
					}
				}
			case *ast.FuncLit, *ast.GoStmt, *ast.DeferStmt:
				for r := range roots {
					if usesIdent(x.(ast.Node), r) {
						v = true
					}
				}
			}
			return !v
		})
	}
	return v
}

func rootIdent(e ast.Expr) string {
	for {
		switch x := e.(type) {
		case *ast.Ident:
			return x.Name
		case *ast.SelectorExpr:
			e = x.X
		case *ast.IndexExpr:
			e = x.X
		case *ast.SliceExpr:
			e = x.X
		case *ast.StarExpr:
			e = x.X
		case *ast.ParenExpr:
			e = x.X
		default:
			return ""
		}
	}
}

// inlineLocals inlines one round of single-assignment locals; reports whether anything was inlined.
func (nz *Normaliser) inlineLocals(fd *ast.FuncDecl) bool {
	assigns := map[string]int{} // definitions and assignments of the plain name
	blocked := map[string]bool{}
	bound := map[string]bool{} // range variables, parameters of function literals
	single := map[string]int{} // single-variable definitions `x := e`
	ast.Inspect(fd.Body, func(n ast.Node) bool {
		switch x := n.(type) {
		case *ast.AssignStmt:
			for _, l := range x.Lhs {
				if id, ok := l.(*ast.Ident); ok {
					if x.Tok == token.DEFINE && len(x.Lhs) == 1 {
						single[id.Name]++ // `x := e` opens a new variable: one per scope
						continue
					}
					assigns[id.Name]++
				} else if r := rootIdent(l); r != "" {
					blocked[r] = true // a field / element of it is written
				}
			}
		case *ast.IncDecStmt:
			if r := rootIdent(x.X); r != "" {
				assigns[r] += 2
			}
		case *ast.RangeStmt:
			for _, e := range []ast.Expr{x.Key, x.Value} {
				if id, ok := e.(*ast.Ident); ok {
					bound[id.Name] = true // written before the body only
				}
			}
		case *ast.ValueSpec:
			for _, id := range x.Names {
				assigns[id.Name] += 2
			}
		case *ast.UnaryExpr:
			if x.Op == token.AND {
				if r := rootIdent(x.X); r != "" {
					if _, lit := x.X.(*ast.CompositeLit); !lit {
						blocked[r] = true
					}
				}
			}
		case *ast.FuncLit:
			for _, p := range fieldNames(x.Type.Params) {
				bound[p] = true
			}
		}
		return true
	})
	params := map[string]bool{}
	for _, p := range append(append(paramNames(fd), fieldNames(fd.Type.Results)...), recvName(fd)) {
		params[p] = true
	}
	stable := func(e ast.Expr) bool {
		ok := true
		ast.Inspect(e, func(n ast.Node) bool {
			if id, isId := n.(*ast.Ident); isId {
				if params[id.Name] && assigns[id.Name] > 0 {
					ok = false
				}
				if !params[id.Name] && (assigns[id.Name]+single[id.Name] > 1 || (bound[id.Name] && assigns[id.Name]+single[id.Name] > 0)) {
					ok = false
				}
			}
			return ok
		})
		return ok
	}
	done := false
	var walk func(list []ast.Stmt) []ast.Stmt
	walk = func(list []ast.Stmt) []ast.Stmt {
		var out []ast.Stmt
		for i := 0; i < len(list); i++ {
			s := list[i]
			as, ok := s.(*ast.AssignStmt)
			if ok && !done && as.Tok == token.DEFINE && len(as.Lhs) == 1 && len(as.Rhs) == 1 {
				id, isId := as.Lhs[0].(*ast.Ident)
				if isId && id.Name != "_" && assigns[id.Name] == 0 && !blocked[id.Name] && !params[id.Name] && !bound[id.Name] && !redefined(list[i+1:], id.Name) &&
					nz.pureExpr(as.Rhs[0]) && !nz.volatileExpr(as.Rhs[0], list[i+1:]) && stable(as.Rhs[0]) && shareable(fd.Body, id.Name, as.Rhs[0]) && !usesIdent(as.Rhs[0], id.Name) {
					for _, rest := range list[i+1:] {
						substIdent(rest, id.Name, as.Rhs[0])
					}
					done = true
					continue
				}
			}
			if !done {
				forBlocks(s, func(b *ast.BlockStmt) { b.List = walk(b.List) })
			}
			out = append(out, s)
		}
		return out
	}
	fd.Body.List = walk(fd.Body.List)
	return done
}

// redefined: is the name defined again (shadowed) inside the statements?
func redefined(list []ast.Stmt, name string) bool {
	r := false
	for _, s := range list {
		ast.Inspect(s, func(n ast.Node) bool {
			switch x := n.(type) {
			case *ast.AssignStmt:
				if x.Tok == token.DEFINE {
					for _, l := range x.Lhs {
						if id, ok := l.(*ast.Ident); ok && id.Name == name {
							r = true
						}
					}
				}
			case *ast.RangeStmt:
				for _, e := range []ast.Expr{x.Key, x.Value} {
					if id, ok := e.(*ast.Ident); ok && id.Name == name {
						r = true
					}
				}
			case *ast.ValueSpec:
				for _, id := range x.Names {
					if id.Name == name {
						r = true
					}
				}
			}
			return !r
		})
	}
	return r
}

// shareable: may the value be duplicated?  A map / pointer / make allocation has an identity (never inlined); a slice
// literal is inlined only when every use spreads it (`f(xs...)`), i.e. only reads it.
func shareable(body ast.Node, name string, e ast.Expr) bool {
	e = stripParens(e)
	if u, ok := e.(*ast.UnaryExpr); ok && u.Op == token.AND {
		return false
	}
	if c, ok := e.(*ast.CallExpr); ok && (calleeText(c) == "make" || calleeText(c) == "new") {
		return false
	}
	cl, ok := e.(*ast.CompositeLit)
	if !ok {
		return true
	}
	if _, isArr := cl.Type.(*ast.ArrayType); !isArr {
		return false
	}
	uses, spreads := 0, 0
	ast.Inspect(body, func(n ast.Node) bool {
		switch x := n.(type) {
		case *ast.Ident:
			if x.Name == name {
				uses++
			}
		case *ast.CallExpr:
			if x.Ellipsis != token.NoPos && len(x.Args) > 0 {
				if id, ok := x.Args[len(x.Args)-1].(*ast.Ident); ok && id.Name == name {
					spreads++
				}
			}
		}
		return true
	})
	return uses-1 == spreads // one occurrence is the definition
}

func substIdent(n ast.Node, name string, e ast.Expr) {
	mapExprs(n, func(x ast.Expr) ast.Expr {
		if id, ok := x.(*ast.Ident); ok && id.Name == name {
			return paren(e)
		}
		return x
	})
}

// ---- 6. range over indices -----------------------------------------------------------------------------------------------

func rangeIndexToValue(fset *token.FileSet, list []ast.Stmt) []ast.Stmt {
	cnt := 0
	var walk func(list []ast.Stmt)
	walk = func(list []ast.Stmt) {
		for _, s := range list {
			forBlocks(s, func(b *ast.BlockStmt) { walk(b.List) })
			r, ok := s.(*ast.RangeStmt)
			if !ok || r.Key == nil || r.Tok != token.DEFINE {
				continue
			}
			k, ok := r.Key.(*ast.Ident)
			if !ok || k.Name == "_" {
				continue
			}
			tx := oneLine(printNode(fset, r.X))
			isElem := func(e ast.Expr) bool {
				ix, ok := stripParens(e).(*ast.IndexExpr)
				return ok && oneLine(printNode(fset, ix.X)) == tx && exprPath(ix.Index) == k.Name
			}
			under := func(e ast.Expr) bool { // is the element the root of this addressable expression?
				for {
					if isElem(e) {
						return true
					}
					switch x := e.(type) {
					case *ast.SelectorExpr:
						e = x.X
					case *ast.IndexExpr:
						e = x.X
					case *ast.ParenExpr:
						e = x.X
					case *ast.SliceExpr:
						e = x.X
					default:
						return false
					}
				}
			}
			found, bad := false, writes(r.Body, k.Name) || writes(r.Body, rootIdent(r.X))
			ast.Inspect(r.Body, func(n ast.Node) bool {
				switch x := n.(type) {
				case *ast.IndexExpr:
					if isElem(x) {
						found = true
					}
				case *ast.UnaryExpr:
					if x.Op == token.AND && under(x.X) {
						bad = true
					}
				case *ast.AssignStmt:
					for _, l := range x.Lhs {
						if under(l) {
							bad = true
						}
					}
				case *ast.IncDecStmt:
					if under(x.X) {
						bad = true
					}
				}
				return true
			})
			if !bad && (found || r.Value != nil) {
				var v *ast.Ident
				if r.Value != nil {
					v, _ = r.Value.(*ast.Ident)
				}
				if v == nil || v.Name == "_" {
					if !found {
						goto key
					}
					cnt++
					v = ast.NewIdent(fmt.Sprintf("elem%d_%s", cnt, k.Name))
					r.Value = v
				}
				if found && !writes(r.Body, v.Name) {
					mapExprs(r.Body, func(e ast.Expr) ast.Expr {
						if isElem(e) {
							return ast.NewIdent(v.Name)
						}
						return e
					})
				}
			}
		key:
			if r.Value != nil && !usesIdent(r.Body, k.Name) {
				r.Key = ast.NewIdent("_")
			}
		}
	}
	walk(list)
	return list
}

// ---- 7. alpha-renaming ---------------------------------------------------------------------------------------------------

func (nz *Normaliser) rename(fset *token.FileSet, fd *ast.FuncDecl, spec FuncSpec) {
	m := map[string]string{}
	canon := map[string]bool{}
	pick := func(names []string, i int, def string) string {
		if i < len(names) && names[i] != "" {
			return names[i]
		}
		return def + strconv.Itoa(i+1)
	}
	if r := recvName(fd); r != "" {
		to := spec.Recv
		if to == "" {
			to = "recv"
		}
		m[r] = to
		canon[to] = true
	}
	for i, p := range paramNames(fd) {
		if p != "_" {
			to := pick(spec.Params, i, "a")
			m[p] = to
			canon[to] = true
		}
	}
	for i, p := range fieldNames(fd.Type.Results) {
		if p != "_" {
			to := pick(spec.Results, i, "r")
			m[p] = to
			canon[to] = true
		}
	}
	// two-step renaming (through private names) so that a swap of two names is handled
	step := func(n ast.Node, mm map[string]string) {
		tmp, back := map[string]string{}, map[string]string{}
		i := 0
		for from, to := range mm {
			if from == to {
				continue
			}
			t := fmt.Sprintf("ʀ%dʀ%s", i, to)
			tmp[from], back[t] = t, to
			i++
		}
		renameIdents(n, tmp)
		renameIdents(n, back)
	}
	step(fd, m)
	// locals defined from a call, range variables: in source order (later definitions see earlier renames)
	ast.Inspect(fd.Body, func(n ast.Node) bool {
		switch x := n.(type) {
		case *ast.AssignStmt:
			if len(x.Rhs) == 1 && len(x.Lhs) == 1 {
				if want, ok := nz.FromExpr[oneLine(printNode(fset, x.Rhs[0]))]; ok {
					if id, ok := x.Lhs[0].(*ast.Ident); ok && id.Name != "_" && !canon[id.Name] {
						canon[want] = true
						step(fd.Body, map[string]string{id.Name: want})
					}
				}
			}
			if x.Tok == token.DEFINE && len(x.Rhs) == 1 {
				if c, ok := x.Rhs[0].(*ast.CallExpr); ok {
					if want, ok := nz.CalleeResults[lastName(calleeText(c))]; ok && len(want) == len(x.Lhs) {
						mm := map[string]string{}
						for i, l := range x.Lhs {
							if id, ok := l.(*ast.Ident); ok && id.Name != "_" && want[i] != "" && !canon[id.Name] {
								mm[id.Name] = want[i]
								canon[want[i]] = true
							}
						}
						step(fd.Body, mm)
					}
				}
			}
		case *ast.RangeStmt:
			if want, ok := nz.RangeVars[oneLine(printNode(fset, x.X))]; ok {
				mm := map[string]string{}
				for j, e := range []ast.Expr{x.Key, x.Value} {
					if id, ok := e.(*ast.Ident); ok && id.Name != "_" && want[j] != "" {
						mm[id.Name] = want[j]
						canon[want[j]] = true
					}
				}
				step(x, mm)
			}
		}
		return true
	})
	// everything else: x1, x2, … in order of definition
	var order []string
	seen := map[string]bool{}
	add := func(e ast.Expr) {
		if id, ok := e.(*ast.Ident); ok && id.Name != "_" && !canon[id.Name] && !seen[id.Name] {
			seen[id.Name] = true
			order = append(order, id.Name)
		}
	}
	ast.Inspect(fd.Body, func(n ast.Node) bool {
		switch x := n.(type) {
		case *ast.AssignStmt:
			if x.Tok == token.DEFINE {
				for _, l := range x.Lhs {
					add(l)
				}
			}
		case *ast.RangeStmt:
			if x.Tok == token.DEFINE {
				add(x.Key)
				add(x.Value)
			}
		case *ast.ValueSpec:
			for _, id := range x.Names {
				add(id)
			}
		case *ast.FuncLit:
			for _, f := range x.Type.Params.List {
				for _, id := range f.Names {
					add(id)
				}
			}
		}
		return true
	})
	mm := map[string]string{}
	for i, name := range order {
		mm[name] = "x" + strconv.Itoa(i+1)
	}
	step(fd.Body, mm)
}

// ---- 8. string building --------------------------------------------------------------------------------------------------

func strLit(e ast.Expr) (string, bool) {
	if b, ok := e.(*ast.BasicLit); ok && b.Kind == token.STRING {
		s, err := strconv.Unquote(b.Value)
		return s, err == nil
	}
	return "", false
}

// canonStrings: `a + "_" + b` (a chain of + with at least one string literal) and strconv.Itoa become fmt.Sprintf;
// a %s argument that is itself a Sprintf is merged into the format.
func canonStrings(n ast.Node) {
	mapExprs(n, func(e ast.Expr) ast.Expr {
		switch x := e.(type) {
		case *ast.BinaryExpr:
			if x.Op != token.ADD {
				return e
			}
			parts := flattenOp(x, token.ADD)
			has := false
			for _, p := range parts {
				if _, ok := strLit(p); ok {
					has = true
				}
				if c, ok := p.(*ast.CallExpr); ok && calleeText(c) == "fmt.Sprintf" {
					has = true
				}
			}
			if !has {
				return e
			}
			format := ""
			var args []ast.Expr
			for _, p := range parts {
				if s, ok := strLit(p); ok {
					format += strings.ReplaceAll(s, "%", "%%")
					continue
				}
				if c, ok := p.(*ast.CallExpr); ok {
					switch calleeText(c) {
					case "fmt.Sprintf":
						if f, ok := strLit(c.Args[0]); ok {
							format += f
							args = append(args, c.Args[1:]...)
							continue
						}
					case "strconv.Itoa":
						format += "%d"
						a := c.Args[0]
						if cc, ok := a.(*ast.CallExpr); ok && calleeText(cc) == "int" && len(cc.Args) == 1 {
							a = cc.Args[0]
						}
						args = append(args, a)
						continue
					}
				}
				format += "%s"
				args = append(args, p)
			}
			return &ast.CallExpr{Fun: &ast.SelectorExpr{X: ast.NewIdent("fmt"), Sel: ast.NewIdent("Sprintf")},
				Args: append([]ast.Expr{&ast.BasicLit{Kind: token.STRING, Value: strconv.Quote(format)}}, args...)}
		case *ast.CallExpr:
			if calleeText(x) != "fmt.Sprintf" || len(x.Args) == 0 {
				return e
			}
			f, ok := strLit(x.Args[0])
			if !ok {
				return e
			}
			// merge nested Sprintf under %s
			out, ai := "", 1
			var args []ast.Expr
			for i := 0; i < len(f); i++ {
				if f[i] != '%' || i+1 >= len(f) {
					out += string(f[i])
					continue
				}
				i++
				if f[i] == '%' {
					out += "%%"
					continue
				}
				verb := "%" + string(f[i])
				if ai >= len(x.Args) {
					return e
				}
				a := x.Args[ai]
				ai++
				if c, ok := a.(*ast.CallExpr); ok && verb == "%s" && calleeText(c) == "fmt.Sprintf" && len(c.Args) > 0 {
					if inner, ok := strLit(c.Args[0]); ok {
						out += inner
						args = append(args, c.Args[1:]...)
						continue
					}
				}
				if c, ok := a.(*ast.CallExpr); ok && verb == "%s" && calleeText(c) == "strconv.Itoa" && len(c.Args) == 1 {
					out += "%d"
					args = append(args, c.Args[0])
					continue
				}
				out += verb
				args = append(args, a)
			}
			x.Args = append([]ast.Expr{&ast.BasicLit{Kind: token.STRING, Value: strconv.Quote(out)}}, args...)
		}
		return e
	})
}
