package main

import (
	"go/ast"
	"go/token"

	"factgen/fg"
)

// newPolicyNormaliser: the naming tables of pkg/policy (canonical names = the names of the pinned tree, by POSITION /
// ROLE: a renamed parameter or local of the source is mapped back to them).
func newPolicyNormaliser(files ...*fg.Parsed) *Normaliser {
	nz := NewNormaliser()
	for _, f := range files {
		nz.Register(f.Fset, f.File)
	}
	sp := func(name, recv string, params []string, results ...string) {
		nz.Specs[name] = FuncSpec{Recv: recv, Params: params, Results: results}
		nz.Known[name] = true
	}
	sp("writePolicyChainRules", "", []string{"filterRules", "policyChainName", "policyNameComment", "srcTableNames",
		"dstTableNames", "tcpPorts", "udpPorts"})
	sp("writeRules", "p", []string{"polices", "existingChains", "filterChains", "activeChains", "filterRules"})
	sp("writeChains", "p", []string{"existingChains", "activeChains", "filterChains", "filterRules"})
	sp("policyResult", "p", []string{"np"})
	sp("ingressOrEgress", "", []string{"np"}, "ingress", "egress")
	sp("peerRule", "p", []string{"ports", "peers"})
	sp("podSelectorToTable", "p", []string{"podSelector", "namespace"})
	sp("namespaceSelectorToTable", "p", []string{"namespaceSelector"})
	sp("peerTable", "p", []string{"peer"})
	sp("ipBlockToTable", "", []string{"cidr", "except"})
	sp("formatCidr", "", []string{"cidr"})
	sp("entries", "", []string{"pods", "setType"})
	sp("tableNameHash", "", []string{"data"})
	sp("nameHash", "", []string{"data"})
	sp("rulePorts", "", []string{"npp"})
	sp("syncRules", "p", []string{"polices"})
	sp("syncIptables", "p", []string{"polices"})
	sp("createIPSet", "p", []string{"newIPSetMap"})
	sp("initIPSetMap", "", []string{"polices"})
	sp("policyChainName", "", []string{"policy"})
	sp("podChainName", "", []string{"pod"})
	sp("SyncPodChains", "p", []string{"pod"})
	sp("filterMatchingPolicies", "", []string{"pod", "policies"})
	sp("ensureBasicChain", "p", nil)
	sp("deletePodChains", "p", []string{"pod"})
	sp("deletePodRuleByKeyword", "p", []string{"pod", "chain", "keyword"})
	sp("Run", "p", nil)
	sp("syncNetworkPolicyRules", "p", nil)
	sp("syncNetworkPolices", "p", nil)
	sp("syncPods", "p", nil)
	sp("startPodInformerFactory", "p", nil)
	sp("AddPolicy", "p", []string{"policy"})
	sp("UpdatePolicy", "p", []string{"oldPolicy", "newPolicy"})
	sp("DeletePolicy", "p", []string{"policy"})
	sp("writeLine", "", []string{"buf", "words"})
	for _, k := range []string{"getNamespaces", "addOrDelIPSetEntry", "syncIngressInIPSet", "syncEgressInIPSet", "initInformers"} {
		nz.Known[k] = true
	}
	nz.CalleeResults = map[string][]string{
		"filterMatchingPolicies":  {"filteredIngressPolicy", "filteredEgressPolicy"},
		"ingressOrEgress":         {"ingress", "egress"},
		"rulePorts":               {"tcpPorts", "udpPorts"},
		"peerTable":               {"tbl", ""},
		"podSelectorToTable":      {"tbl", ""},
		"peerRule":                {"rule"},
		"ListSets":                {"ipsets", ""},
		"initIPSetMap":            {"newIPSetMap"},
		"ListEntries":             {"oldEntries", ""},
		"LabelSelectorAsSelector": {"podLabelSelector", ""},
	}
	nz.RangeVars = map[string][2]string{
		"srcTableNames":               {"", "srcTableName"},
		"dstTableNames":               {"", "dstTableName"},
		"polices":                     {"", "policy"},
		"policies":                    {"i", "policy"},
		"policy.ingressRule.srcRules": {"", "rule"},
		"policy.egressRule.dstRules":  {"", "rule"},
		"np.Spec.PolicyTypes":         {"", "pt"},
		"np.Spec.Ingress":             {"i", "ir"},
		"np.Spec.Egress":              {"i", "ir"},
		"peers":                       {"j", "peer"},
		"npp":                         {"", "port"},
		"except":                      {"", "ex"},
		"pods":                        {"", "pod"},
		"existingChains":              {"chain", ""},
		"newIPSetMap":                 {"name", "set"},
		"set.entries":                 {"", "entry"},
		"oldEntries":                  {"", "old"},
		"ipsets":                      {"", "name"},
	}
	for _, k := range []string{"fmt.Sprintf", "strings.Join", "strings.ToLower", "strings.TrimSuffix", "strings.HasPrefix",
		"strings.Split", "strings.Contains", "strconv.Itoa", "utiliptables.Chain", "utiliptables.MakeChainLine",
		"policyChainName", "podChainName", "nameHash", "tableNameHash", "sha256.Sum256", "EncodeToString",
		"Len", "Has", "String", "Bytes", "labels.Set", "Matches", "labels.Everything"} {
		nz.Pure[k] = true
	}
	nz.Volatile = map[string]bool{"Len": true, "Has": true, "Bytes": true}
	nz.Fold = []string{"policyChainName", "podChainName"}
	nz.FromExpr = map[string]string{"p.policies": "policies"}
	return nz
}

// ---- folding of inlined single-expression helpers ------------------------------------------------------------------------

// unify matches expression e against pattern pat; identifiers of pat in holes bind to sub-expressions.
func unify(pat, e ast.Expr, holes map[string]bool, bind map[string]ast.Expr, same func(a, b ast.Node) bool) bool {
	pat, e = stripParens(pat), stripParens(e)
	if id, ok := pat.(*ast.Ident); ok && holes[id.Name] {
		if b, ok := bind[id.Name]; ok {
			return same(b, e)
		}
		bind[id.Name] = e
		return true
	}
	switch p := pat.(type) {
	case *ast.Ident:
		x, ok := e.(*ast.Ident)
		return ok && x.Name == p.Name
	case *ast.BasicLit:
		x, ok := e.(*ast.BasicLit)
		return ok && x.Kind == p.Kind && x.Value == p.Value
	case *ast.SelectorExpr:
		x, ok := e.(*ast.SelectorExpr)
		return ok && x.Sel.Name == p.Sel.Name && unify(p.X, x.X, holes, bind, same)
	case *ast.CallExpr:
		x, ok := e.(*ast.CallExpr)
		if !ok || len(x.Args) != len(p.Args) || (x.Ellipsis == token.NoPos) != (p.Ellipsis == token.NoPos) ||
			!unify(p.Fun, x.Fun, holes, bind, same) {
			return false
		}
		for i := range p.Args {
			if !unify(p.Args[i], x.Args[i], holes, bind, same) {
				return false
			}
		}
		return true
	case *ast.BinaryExpr:
		x, ok := e.(*ast.BinaryExpr)
		return ok && x.Op == p.Op && unify(p.X, x.X, holes, bind, same) && unify(p.Y, x.Y, holes, bind, same)
	case *ast.UnaryExpr:
		x, ok := e.(*ast.UnaryExpr)
		return ok && x.Op == p.Op && unify(p.X, x.X, holes, bind, same)
	case *ast.StarExpr:
		x, ok := e.(*ast.StarExpr)
		return ok && unify(p.X, x.X, holes, bind, same)
	case *ast.IndexExpr:
		x, ok := e.(*ast.IndexExpr)
		return ok && unify(p.X, x.X, holes, bind, same) && unify(p.Index, x.Index, holes, bind, same)
	}
	return same(pat, e)
}

// foldHelpers replaces every expression that is the (normalised) body of a single-expression helper of nz.Fold by the
// call of that helper: a helper inlined by hand still matches.
func (nz *Normaliser) foldHelpers(nf *NF) {
	for _, name := range nz.Fold {
		if nf.Decl.Name.Name == name || nz.Funcs[name] == nil {
			continue
		}
		h, err := nz.normaliseNoFold(nz.Funcs[name], nz.Specs[name])
		if err != nil || len(h.Decl.Body.List) != 1 {
			continue
		}
		ret, ok := h.Decl.Body.List[0].(*ast.ReturnStmt)
		if !ok || len(ret.Results) != 1 {
			continue
		}
		holes := map[string]bool{}
		ps := paramNames(h.Decl)
		for _, p := range ps {
			holes[p] = true
		}
		same := func(a, b ast.Node) bool { return oneLine(printNode(h.Fset, a)) == oneLine(printNode(nf.Fset, b)) }
		mapExprs(nf.Decl.Body, func(e ast.Expr) ast.Expr {
			bind := map[string]ast.Expr{}
			if _, isCall := e.(*ast.CallExpr); !isCall || !unify(ret.Results[0], e, holes, bind,
				func(a, b ast.Node) bool {
					return same(a, b) || oneLine(printNode(nf.Fset, a)) == oneLine(printNode(nf.Fset, b))
				}) {
				return e
			}
			var args []ast.Expr
			for _, p := range ps {
				if bind[p] == nil {
					return e
				}
				args = append(args, bind[p])
			}
			return &ast.CallExpr{Fun: ast.NewIdent(name), Args: args}
		})
	}
}

func parsed(repo, rel string) (*fg.Parsed, error) { return fg.ParseFile(repo, rel) }
