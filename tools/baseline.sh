#!/bin/bash
# Runs the repository's pinned test suite with the verif guard OFF (no -tags verif) and compares the
# passing tests with /root/.vp/BASELINE.json stable_pass.  Exit 0 iff every stable_pass test passes.
export GOFLAGS=-mod=mod GOPROXY=off GOSUMDB=off GOTOOLCHAIN=local
REPO=${GALAXY_REPO:-/repo}
LOG=$(mktemp /var/tmp/gxbaseline.XXXXXX.json)
(cd "$REPO" && go test -mod=mod -json -vet=off -count=1 -timeout 25m ./... > "$LOG" 2>/dev/null)
python3 - "$LOG" <<'PY'
import json,sys
passed=set()
for l in open(sys.argv[1]):
    try: e=json.loads(l)
    except ValueError: continue
    if e.get("Action")=="pass" and e.get("Test"):
        passed.add(e["Package"]+"::"+e["Test"])
base=json.load(open("/root/.vp/BASELINE.json"))["stable_pass"]
missing=[t for t in base if t not in passed]
print("baseline stable_pass=%d passed_now=%d missing=%d"%(len(base),len(passed),len(missing)))
for t in missing: print("MISSING",t)
sys.exit(1 if missing else 0)
PY
rc=$?
rm -f "$LOG"
exit $rc
