#!/usr/bin/env python3
"""Prints what setup.sh must build for the properties accepted in checklib/ready.txt:
   `factgen <area>...`, `lean <target>...`, `harness <cmd>...` (one line each)."""
import os
import sys

ROOT = os.path.dirname(os.path.dirname(os.path.abspath(__file__)))
sys.path.insert(0, ROOT)
from checklib import props  # noqa

ready = [l.split()[0] for l in open(os.path.join(ROOT, "checklib", "ready.txt")) if l.strip() and not l.startswith("#")]
fg, lean, har = [], [], []
for pid in ready:
    s = props.PROPS.get(pid)
    if not s:
        continue
    for a in s.get("factgen", []):
        if a not in fg:
            fg.append(a)
    for m in s["lean_modules"]:
        if m not in lean:
            lean.append(m)
    for d in s.get("drivers", []):
        if "gxdrv_" + d not in lean:
            lean.append("gxdrv_" + d)
    har.append(pid.lower())
print("factgen", *fg)
print("lean", *lean)
print("harness", *har)
