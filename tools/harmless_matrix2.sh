#!/bin/bash
# tools/harmless_matrix.sh : runs every behaviour-preserving rewrite under harmless/Hnn against the checks of the
# properties anchored in the file it touches; one line per run in out/harmless_matrix2.txt
cd "$(dirname "$0")/.."
declare -A MAP=( [H01]="C02 C05 C19" [H02]="C05 C09" [H03]="C20 C18" [H04]="C20" [H05]="C04 C01 C10" [H06]="C06 C04" [H07]="C04 C03" [H08]="C03 C02" [H09]="C11" [H10]="C11" [H11]="C11 C18" [H12]="C13 C12" [H13]="C12 C14" [H14]="C16 C15" [H15]="C14" [H16]="C17" [H17]="C05 C03" [H18]="C05 C04" [H19]="C09 C05 C19" [H20]="C05 C09" [H21]="C04 C10 C08" [H22]="C04 C10" [H23]="C06 C02" [H24]="C07 C02" [H25]="C04 C18" [H26]="C03" [H27]="C06 C19" [H28]="C07" [H29]="C12 C13" [H30]="C12" [H31]="C12 C13" [H32]="C16 C15" [H33]="C15 C16" [H34]="C15" [H35]="C14" [H36]="C17" )
for h in ${1:-$(ls harmless | sort)}; do
  for pid in ${MAP[$h]}; do
    o=$(tools/run_seeded.sh harmless/$h "$pid" quick 2>&1)
    line=$(echo "$o" | grep -E '^VIOLATION' | head -1 | sed 's#/var/tmp/gxseed\.[A-Za-z0-9]*/verif/##')
    br=$(echo "$o" | grep -E 'stderr: (broken|violation):' | head -1 | sed 's/.*stderr: //' | cut -c1-220)
    rc=$(echo "$o" | grep -E '^exit=' | head -1)
    echo "$(date +%H:%M) $h -> $pid $rc | ${line:-green} | $br" >> out/harmless_matrix2.txt
  done
done
