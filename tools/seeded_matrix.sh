#!/bin/bash
# tools/seeded_matrix.sh <pid>...  : runs every seeded change of the given properties (seeded/<pid>-*) through
# that property's check in a scratch tree; appends one line per run to out/seeded_matrix.txt
cd "$(dirname "$0")/.."
mkdir -p out
for pid in "$@"; do
  for sd in seeded/$pid-${SEEDSUF:-*}; do
    [ -f "$sd/patch.diff" ] || continue
    o=$(tools/run_seeded.sh "$sd" "$pid" quick 2>&1)
    line=$(echo "$o" | grep -E '^VIOLATION' | head -1)
    sig=$(echo "$o" | grep -E 'stderr: violation:' | head -1 | sed 's/.*stderr: violation: //' | cut -c1-160)
    br=$(echo "$o" | grep -E 'stderr: broken:' | head -1 | sed 's/.*stderr: broken: //' | cut -c1-200)
    rc=$(echo "$o" | grep -E '^exit=' | head -1)
    echo "$(date +%H:%M) $(basename $sd) -> $pid $rc | ${line:-no-violation} | ${sig:-$br}" >> out/seeded_matrix.txt
  done
done
