#!/bin/bash
# tools/confirm_seeded.sh <candidate-dir>...   (e.g. /tmp/seeded-out/C04-1)
# Confirms a seeded change independently in a scratch worktree: patch applies to HEAD, the tree builds, the
# pinned baseline suite stays green, the demonstration fails with the change and passes without it.
# On success copies the candidate to /verif/seeded/<id>/ and writes confirm.json there.
export GOFLAGS=-mod=mod GOPROXY=off GOSUMDB=off GOTOOLCHAIN=local
for SD in "$@"; do
  SD=$(realpath "$SD"); ID=$(basename "$SD")
  [ -f "$SD/patch.diff" ] && [ -f "$SD/demo/run.sh" ] && [ -f "$SD/meta.json" ] || { echo "$ID: incomplete"; continue; }
  [ -f "/verif/seeded/$ID/confirm.json" ] && { echo "$ID: already confirmed"; continue; }
  W=$(mktemp -d /var/tmp/gxconfirm.XXXXXX)
  git -C /repo worktree add --detach "$W/repo" HEAD >/dev/null 2>&1
  ok=1; notes=""
  if ! git -C "$W/repo" apply "$SD/patch.diff" 2>"$W/apply.err"; then ok=0; notes="patch does not apply: $(head -c 300 $W/apply.err)"; fi
  if [ $ok = 1 ]; then
    if git -C "$W/repo" diff --name-only | grep -q '_test.go$'; then ok=0; notes="patch touches test files"; fi
  fi
  if [ $ok = 1 ] && ! (cd "$W/repo" && go build ./... >"$W/build.log" 2>&1); then ok=0; notes="does not build"; fi
  if [ $ok = 1 ]; then
    base=$(GALAXY_REPO="$W/repo" /verif/tools/baseline.sh 2>&1 | head -1)
    echo "$base" | grep -q 'missing=0' || { ok=0; notes="baseline: $base"; }
  fi
  with=-1; without=-1
  if [ $ok = 1 ]; then
    GALAXY_REPO="$W/repo" timeout 600 bash "$SD/demo/run.sh" "$W/repo" >"$W/demo_with.log" 2>&1; with=$?
    git -C "$W/repo" apply -R "$SD/patch.diff"
    GALAXY_REPO="$W/repo" timeout 600 bash "$SD/demo/run.sh" "$W/repo" >"$W/demo_without.log" 2>&1; without=$?
    [ $with != 0 ] && [ $without = 0 ] || { ok=0; notes="demo: with=$with without=$without"; }
  fi
  if [ $ok = 1 ]; then
    mkdir -p "/verif/seeded/$ID"
    cp -r "$SD/patch.diff" "$SD/demo" "$SD/meta.json" "/verif/seeded/$ID/"
    python3 - "$ID" "$base" "$with" "$without" <<'PY'
import json,sys,subprocess
ID,base,w,wo=sys.argv[1:5]
head=subprocess.run(["git","-C","/repo","rev-parse","--short","HEAD"],capture_output=True,text=True).stdout.strip()
json.dump({"confirmed_by":"tools/confirm_seeded.sh in a scratch worktree of /repo","repo_head":head,
 "patch_applies":True,"builds":True,"baseline":base,"demo_exit_with_patch":int(w),"demo_exit_without_patch":int(wo)},
 open("/verif/seeded/%s/confirm.json"%ID,"w"),indent=1)
PY
    echo "$ID: CONFIRMED ($base; demo with=$with without=$without)"
  else
    echo "$ID: REJECTED — $notes"
  fi
  git -C /repo worktree remove --force "$W/repo" >/dev/null 2>&1; rm -rf "$W"
done
