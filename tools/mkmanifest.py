#!/usr/bin/env python3
"""Generate /verif/MANIFEST.json from checklib/props.py."""
import json
import os
import sys

ROOT = os.path.dirname(os.path.dirname(os.path.abspath(__file__)))
sys.path.insert(0, ROOT)
from checklib import props  # noqa

hooks_commits = []
hp = os.path.join(ROOT, "hooks_commits.txt")
if os.path.exists(hp):
    hooks_commits = [l.split()[0] for l in open(hp) if l.strip() and not l.startswith("#")]

m = {
    "version": 1,
    "setup_cmd": "./setup.sh",
    "hooks": {
        "guard": "verif",
        "enable": "go build -tags verif (harness module gxverif, replace tkestack.io/galaxy => /repo)",
        "baseline_off_cmd": "./tools/baseline.sh",
        "source_commits": hooks_commits,
        "add_only": True,
    },
    "engines": [
        {"name": "lean", "path": "lean", "serves_properties": sorted(props.PROPS),
         "kind_free_text": "Lean 4.33 project: executable models (Galaxy/Model), theorems (Galaxy/Props), regenerated "
                           "definitions and facts (Galaxy/Generated), line-protocol driver gxdriver"},
        {"name": "factgen", "path": "tools/factgen", "serves_properties": sorted(props.PROPS),
         "kind_free_text": "go/ast translator: /repo source -> Lean definitions + structural fact table, rerun on every check"},
        {"name": "gxharness", "path": "harness", "serves_properties": sorted(props.PROPS),
         "kind_free_text": "Go correspondence harness + property monitors, built -tags verif against /repo's working tree"},
    ],
    "checks": [],
    "not_applicable": [],
    "notes": "Every check: ./check <id> --tier <tier>. See DESIGN.md. Known, unrepaired defects are listed in "
             "known_findings.json and reported as KNOWN-FINDING lines.",
}
ready = set()
rp = os.path.join(ROOT, "checklib", "ready.txt")
if os.path.exists(rp):
    ready = {l.split()[0] for l in open(rp) if l.strip() and not l.startswith("#")}
for pid in list(props.PROPS):
    if pid not in ready:   # registry file exists but the coordinator has not accepted the check yet
        del props.PROPS[pid]
for e in m["engines"]:
    e["serves_properties"] = sorted(props.PROPS)
for pid in sorted(props.PROPS):
    s = props.PROPS[pid]
    m["checks"].append({
        "property_id": pid,
        "quick_cmd": "./check %s --tier quick" % pid,
        "thorough_cmd": "./check %s --tier thorough" % pid,
        "evidence_file": "evidence/%s.json" % pid,
        "replay_cmd_template": "./check %s --replay {path}" % pid,
        "engine": "lean+factgen+gxharness",
        "level_claimed": {"category": "proof", "text": s["level_text"], "design_ref": s.get("design_ref", "§6 " + pid)},
        "level_note": s["level_note"],
        "technique": s["technique"],
    })
for pid in sorted(props.NOT_CLAIMED):
    if pid not in props.PROPS:
        m["not_applicable"].append({"property_id": pid, "reason": props.NOT_CLAIMED[pid]})
json.dump(m, open(os.path.join(ROOT, "MANIFEST.json"), "w"), indent=1)
print("MANIFEST.json: %d checks, %d not claimed" % (len(m["checks"]), len(m["not_applicable"])))
