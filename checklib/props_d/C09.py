prop("C09",
     level_text="Lean 4 theorems over the executable IPAM model M3: reserved_never_allocated (in ANY state an address with a "
                "stored object, labelled or not, event delivered or not, is returned by no allocation move, any choice, any "
                "plan), reserved_after_delivery_not_free, unconfigured_never_allocated (free = configured minus allocated and "
                "nothing outside the configuration allocated in every state reachable by admissible moves, NO side condition), "
                "allocated_is_configured, reload_lossless + reload_drops_others (ConfigurePool keeps exactly the stored records "
                "configured afterwards, from any previous memory), reload_atomic and allocateSpecific_atomic (parameterised by "
                "the regenerated lock facts: the scheduled two-step reload equals the atomic one; does not build if the list "
                "moves out of the lock), reload_two_step_counter (the pre-fix defect D6 in the model), fact_reload_atomic. "
                "IPAM level; the pod-annotation clause is model M4's.  The plugin-level reload path (ensureIPAMConf around "
                "ConfigurePool) is covered by Props/C20 store_failure_changes_nothing / store_failure_retried and here by the "
                "scripted history reload-retry-after-store-failure on the real plugin (a failed reload changes nothing and the "
                "same text is applied at the next poll, so de-configured addresses do not stay served).",
     level_note="Full on the model. 'Allocations made while the reload is in progress' is discharged by atomicity: the lock is "
                "held from before the list (fact), the thorough harness confirms on the real code that a concurrent "
                "allocation / release blocks until the reload is done.",
     technique="Lean 4 theorems over an executable model + regenerated structural facts (factgen ipam) + differential "
               "correspondence over sequences of configurations with delayed admin-reservation events; monitors on the real "
               "crdIpam (reserved / unconfigured never returned, reload keeps exactly the configured records); thorough: real "
               "two-goroutine schedule with ConfigurePool parked after its List call",
     factgen=["ipam"],
     drivers=["ipam"],
     trusted=["tools/factgen/cmd/ipam: lock-scope extraction is syntactic (Lock + deferred Unlock before the first access)",
              "harness/ipam: client-go fake CRD clientset as API server; crdIpam gets a LAGGING informer (lister = store as of the last "
              "explicit informer sync, handlers delivered by the harness), as the daemon passes the real one"],
     assumptions=["the API server refuses to create an object whose name exists (AlreadyExists)",
                  "configurations passed fipCheck; pools pairwise disjoint as address sets",
                  "re-keying an existing record (AllocateInSubnetWithKey, ReserveIP) is not an allocation move"],
     timeout={"quick": 600, "thorough": 3600},
     )
