prop("C13",
     level_text="Lean 4 theorems over the executable argument/IPInfo codec model (Galaxy/Model/Args.lean), full strength on the "
                "model: args_roundtrip (ParseCNIArgs∘BuildCNIArgs = id for every map iteration order), "
                "args_accumulate_last_wins (CmdAdd's accumulation, any request string), ipinfos_roundtrip (JSON text of every "
                "list of IPv4/prefix<=32/vlan<2^16/gateway records decodes to the same list and contains no ';'), "
                "pipeline_preserves_ipinfos (annotation -> per-network args -> CNI_ARGS -> plugin decode = the allocated list, "
                "same order, every network), pipeline_no_ips_no_invention; *_counter theorems show each side condition is needed. "
                "Tied to /repo by factgen `args` (separators, key names, json tags, structural shape of Build/Parse/CmdAdd/"
                "resolveNetworks/Allocate, pinned by fact_* theorems) and by differential correspondence of every stage's text "
                "against the real functions (real Bind -> annotation -> real Galaxy.cmdAdd with a recording delegate -> real "
                "cni/ipam.Allocate), plus an end-to-end monitor against the persisted FloatingIP objects.",
     level_note="encoding/json's framing (RawMessage extraction, member order, escaping) and net.IP/net.IPNet text forms are "
                "exercised by the harness on every generated case but not modelled; the model's JSON decoder accepts exactly "
                "the printer's image (a restriction of what encoding/json accepts).",
     technique="Lean 4 theorems over an executable model + regenerated definitions (factgen) + differential correspondence + "
               "end-to-end runtime monitor",
     factgen=["args"],
     drivers=["args"],
     trusted=["encoding/json framing and net.ParseCIDR / net.IP.String (Go standard library): exercised, not modelled",
              "client-go fake clientsets stand in for the API server (FloatingIP objects, Binding annotation)",
              "a shell script stands in for the delegate CNI plugin binary (records CNI_ARGS verbatim)"],
     assumptions=["pool masks are IPv4 prefixes (<= 32), gateways IPv4 — guaranteed by fipCheck (C20)",
                  "the pod's k8s.v1.cni.galaxy.io/args annotation at CNI ADD time is the one galaxy-ipam's Bind wrote "
                  "(a hand-written annotation with foreign common members containing ';' is outside the property: "
                  "pipeline_foreign_common_arg_counter)"],
     timeout={"quick": 600, "thorough": 3000},
     )
