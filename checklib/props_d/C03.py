prop("C03",
     level_text="Lean 4 theorems over the executable plugin model M4-core (Galaxy/Model/Plugin.lean, what gxdrv_plugin runs) plus "
                "the side file Galaxy/Model/PluginC03.lean (release decision `codeAction` written over comparison expressions "
                "REGENERATED from /repo, the independent documented policy `docAction`, scalable custom resources). Proved at "
                "full strength: unbind_decision_matches_doc (decision table over ALL inputs: key kind x policy x app exists / "
                "replicas / index / #IPs under the prefix), unbind_event_runs_documented_decision and "
                "resync_runs_documented_decision_with_stored_policy (the model's event path / resync closure carry out exactly "
                "that decision, the latter with the STORED policy), quiescent_no_orphan (for EVERY finite history of the 17 moves "
                "- any choices, faults, stale listers, delayed or LOST events, restarts - ending with the listers in sync, after "
                "one fault-free resync pass in any admissible order every record that still names a vanished / finished pod is "
                "kept by the documented policy evaluated with its stored policy, or its stored policy is never), "
                "quiescent_default_released, reachable_coherent (memory = store after every history, no side condition), stored_policy_preserved_by_reserve_memory / _store / _by_unbind_and_resync, 13 fact_* theorems. "
                "_partial: deployment_ips_within_replicas_partial (the deployment clause holds at decision time only) with "
                "deployment_ips_within_replicas_counter (D12 on the model; same history breaks the real code: known finding "
                "dp-prefix-ip-never-reevaluated, corpus/C03/d12.ops).",
     level_note="quiescent_no_orphan assumes only what the property says: listers in sync and one resync pass without injected "
                "fault (no side condition on the history before it); the decision table assumes DIn.WF (policy in "
                "{0,1,2}; unknown deployment = 0 replicas and the address under decision counted under its own prefix - both "
                "facts of the callers; a statefulset / scalable-CR pod carries its ordinal in the key). Scalable custom "
                "resources are in the decision table and in the real-code table run (through verif_hooks_c03.go) but not in "
                "the state of the plugin model (CRs.none proved to give back the model's functions).",
     technique="Lean 4: decision-table theorem + inductive shape invariant of the resync pass (records only vanish / are re-keyed "
               "to a key without pod name / lose node+uid; policy preserved) + coherence invariant over all moves; regenerated "
               "arithmetic and structural facts (factgen c03: comparison operators and operand order of shouldRelease / "
               "unbindDpPod / getAvailableSubnet, branch tables, policy enum, ReserveIP policy copy into clone AND cache, "
               "resync re-read + stored policy, LockDpPool scopes, no fall-through in allocateDuringFilter); differential "
               "correspondence of the REAL FloatingIPPlugin with gxdrv_plugin step by step; monitor = independent Go "
               "reference evaluator of the documented policy at every release (event path: pod policy, resync: stored "
               "policy) and at every quiescent point, stored policy unchanged in memory and store; the whole 432-row decision "
               "table executed on the real code (scalable CR rows through the REAL pkg/ipam/crd cache over the fake dynamic "
               "client); forced two-goroutine schedules: deployment scale-down decision (IPAM decorator barrier after "
               "ByPrefix) and first use of a custom-resource kind with the informer's initial LIST parked (bounded); restart "
               "histories whose first event is a custom-resource pod's delete",
     factgen=["plugin", "c03"],
     drivers=["plugin"],
     trusted=["tools/factgen/cmd/c03 and cmd/plugin: syntactic extraction on single functions (no aliasing analysis)",
              "harness/plugin (work package plugin): fake clientsets behind call-counting decorators, harness-filled listers, "
              "event delivery and resync order chosen by the harness through verif_hooks_plugin.go",
              "pkg/ipam/schedulerplugin/verif_hooks_c03.go: IPAM decorator and CRD/replica-cache injection (build tag verif)",
              "Galaxy/Lemmas/C03D12.lean proves `\"\".isPrefixOf s` from core's String.Slice lemmas because the kernel does not "
              "evaluate String.isPrefixOf (only used for the D12 counter theorem)"],
     assumptions=["keys are structured in the model; that the rendered string is injective for names without '_' is C11",
                  "replicas / existence of a workload are what the informer shows (the monitor judges a release only when the "
                  "informer shows API truth)",
                  "operations on one pod name are atomic (fact: lockPod); count+decision of one deployment are atomic (fact: "
                  "LockDpPool scope; forced schedule on the real code)"],
     timeout={"quick": 900, "thorough": 3600},
     )
