prop("C14",
     level_text="full on model for the NAT tables: setup_clean_inverse, sync_all_exact (for every iteration order of the "
                "Go map), frame_foreign (unconditional, also for failing calls), restore_atomic, chain-name injectivity "
                "of the hash input; the daemon's per-pod protocol of pkg/galaxy/server.go (port file written before "
                "SetupPortMapping; failed_add_leaves_nothing for EVERY failing iptables call, add_then_del_leaves_nothing, "
                "faulty_del_then_retry_leaves_nothing, cleanup_idempotent; failed_restore_keeps_port_file_before_fix is "
                "about the code before fix a5e6428); KUBE-MARK-MASQ is carved out of the frame (D18: setup_rewrites_kube_mark_masq + "
                "_counter, known finding kube-mark-masq-rewritten).  Sockets: ports_distinct_while_held, "
                "second_bind_fails_while_held, failed_open_leaves_none, held_until_close, close_releases are proved "
                "over a model of the kernel bind table; that the kernel behaves like the model is tested, not proved.",
     level_note="hash = truncated SHA-256 is a parameter assumed collision-free on the ports in question (HashInjOn); "
                "M6's iptables semantics is validated against the strict Go fake on every run and against the real "
                "iptables 1.8.9 (nf_tables) inside `unshare -n` in the thorough tier; M6 does not model the kernel's "
                "jump-loop check nor per-target hook restrictions",
     technique="Lean 4 theorems over an executable model of iptables-restore --noflush + the port-mapping generators "
               "instantiated from rule templates regenerated from the source (factgen) + differential correspondence "
               "of the real PortMappingHandler over a strict iptables fake, real sockets, and the real kernel tables",
     factgen=["netfilter"],
     drivers=["netfilter"],
     trusted=["harness/nf strict iptables/ipset fakes (semantics = M6; cross-checked with gxdrv_netfilter on random "
              "batches every run, with real iptables-restore/iptables-save in the thorough tier)",
              "SHA-256/base32 truncation treated as injective on the inputs in question (the Lean driver computes the "
              "real hash; chain names are compared with the implementation's)",
              "kernel socket exclusivity (probed with real bind() calls in a private network namespace)"],
     assumptions=["WFPorts: protocol in {TCP,UDP,tcp,udp}, 1 <= hostPort <= 65535, (hostPort, lower-case protocol) pairwise distinct",
                  "setup_clean_inverse: prior table has KUBE-HOSTPORTS and no rule referencing the pod's chains",
                  "sync_all_exact: prior nat table has OUTPUT and PREROUTING; rules jumping to a stale KUBE-HP-* chain "
                  "sit only in KUBE-HOSTPORTS or KUBE-HP-* chains (otherwise the real -X fails and the batch is refused)"],
     timeout={"quick": 900, "thorough": 3600},
     )
