prop("C08",
     level_text="Lean 4 theorems over the executable IPAM model M3, for ALL states, keys, node subnets, attributes, range lists, "
                "choices and plans: multi_alloc_success (k = number of range lists >= 1, pairwise disjoint, key owns nothing "
                "inside them: exactly k results, result[i] in ranges[i], previously free, in a pool listing the node subnet, "
                "no stored object, pairwise distinct, recorded in memory and store, every other address untouched, "
                "ByKeyAndIPRanges returns them in request order), multi_alloc_failure (any error return incl. not-enough, "
                "store conflict, injected fault: alloc, free, pools unchanged and store unchanged as a map), "
                "multi_alloc_failure_single_fault (every single fault index on quiet Agree states), fact_rollback, "
                "multi_alloc_failure_counter. IPAM level; the binding-annotation clause is model M4's.",
     level_note="multi_alloc_failure needs: no injected fault at all, or a single fault and no free address with a stored object; "
                "otherwise a fault on a rollback delete (ignored by the code) leaks an object: counter theorem, C05 known "
                "finding rollback-delete-fault-leaks-object. The c08 harness injects create faults only (the property's "
                "quantifier).",
     technique="Lean 4 theorems over an executable model + regenerated structural facts (factgen ipam) + differential "
               "correspondence; monitor = the C08 statement evaluated on the real AllocateInSubnetsAndIPRange outputs with a "
               "failing create at every index, partially pre-owned ranges and undelivered admin reservations",
     factgen=["ipam"],
     drivers=["ipam"],
     trusted=["tools/factgen/cmd/ipam: syntactic extraction of the rollback loop shape",
              "harness/ipam: client-go fake CRD clientset as API server, decorator for faults"],
     assumptions=["requested range lists pairwise disjoint (the TODO in the code documents the overlapping case as unsupported)",
                  "configurations passed fipCheck; pools pairwise disjoint as address sets"],
     timeout={"quick": 600, "thorough": 3600},
     )
