prop("C08",
     level_text="Lean 4 theorems over the executable IPAM model M3, for ALL states, keys, node subnets, attributes, range lists, "
                "choices and plans: multi_alloc_success (k = number of range lists >= 1, pairwise disjoint, key owns nothing "
                "inside them: exactly k results, result[i] in ranges[i], previously free, in a pool listing the node subnet, "
                "no stored object, pairwise distinct, recorded in memory and store, every other address untouched, "
                "ByKeyAndIPRanges returns them in request order), multi_alloc_failure (error return with successful rollback — "
                "no injected fault, or a single fault and no free address with a stored object: alloc, free, pools unchanged, "
                "store unchanged as a map), multi_alloc_failure_general (ANY fault set: every address is untouched or, its "
                "rollback delete having failed, allocated to the key in BOTH memory and store), "
                "multi_alloc_failure_single_fault, fact_rollback, multi_alloc_failure_counter (pre-fix shape); the walk of a "
                "requested range is the real one: fact_walk_configured (both clamps, ascending sort, delegation to "
                "walkIPRanges regenerated from walkConfiguredIPRanges), walkConfigured_mem, "
                "walkConfigured_eq_filter_enumerate (exactly the requested configured addresses, ascending, whatever the "
                "pool order), walk_unsorted_unclipped_counter. Bind level (plugin model M4): bind_reports_request_order "
                "(after every history, a Bind answering ok for a pod requesting k range lists writes exactly k entries, the "
                "i-th inside the i-th list, whatever subset was pre-owned) + fact_bind_reply_order restate "
                "Galaxy.Plugin.bind_reports_request_order_after_history. The "
                "binding-annotation clause is model M4's.",
     level_note="Full on the model. The c08 harness injects a fault at every call index (creates and rollback deletes) and checks "
                "both clauses on the real code.",
     technique="Lean 4 theorems over an executable model + regenerated structural facts (factgen ipam) + differential "
               "correspondence; monitor = the C08 statement evaluated on the real AllocateInSubnetsAndIPRange outputs with a "
               "failing create at every index, partially pre-owned ranges and undelivered admin reservations",
     factgen=["ipam", "plugin"],
     drivers=["ipam", "plugin"],
     trusted=["tools/factgen/cmd/plugin + harness/plugin (RunBindRanges: real Filter/Bind on fake clientsets, see C04)",
              "tools/factgen/cmd/ipam: syntactic extraction of the rollback loop shape",
              "harness/ipam: client-go fake CRD clientset as API server, decorator for faults"],
     assumptions=["requested range lists pairwise disjoint (the TODO in the code documents the overlapping case as unsupported)",
                  "configurations passed fipCheck; pools pairwise disjoint as address sets (DisjointConf in walkConfigured_eq_filter_enumerate)"],
     timeout={"quick": 600, "thorough": 3600},
     )
