prop("C10",
     level_text="Lean 4 theorems over the executable plugin model M4-core (cloud provider = call log `plog` of every AssignIP / "
                "UnAssignIP request with its outcome; one cleanly failing provider call per move, retries as later moves) + "
                "M4-C10 (Galaxy/Model/PluginC10.lean: the property's per-IP state machine run over the call log - provOf, callOK, "
                "logOK). Inductive invariant Inv10 = C04 invariant + coherent tables + pointwise relation RecOK between the "
                "stored record and the provider entry of every address (assigned only to the node the record names; records "
                "without pod / without incarnation name no node) + well-ordered log + bound live pods' addresses on the pod's "
                "node, preserved by every move of the move set (all moves of the plugin model except reload - restart, pod-IP "
                "sync, preempt, markTerminating, administrator reservations included - with one failing apiserver call AND one failing provider "
                "call per move, any index) and lifted over all histories: assign_only_when_unassigned_or_same_node_partial (+ request-by-"
                "request form every_assign_request_admissible_partial), unassign_before_free_or_rekey_partial, "
                "bound_pod_ip_assigned_to_its_node_partial, stored_node_is_provider_node_partial, reachable_invariant, fact_*. "
                "Counter theorems: assign_only_when_unassigned_or_same_node_counter (DESIGN D14), "
                "unassign_before_free_or_rekey_counter (two-address keys), "
                "assign_only_when_unassigned_or_same_node_fault_counter (AssignIP ok, then UpdateAttr fails).",
     level_note="_partial: decidable side conditions assumedAll - (a) C04's (non-empty names, bind uid given); (b) reload outside the "
                "move set (excluded by the property's quantifier); restart only without unprocessed orphan objects; (c) "
                "bindSameNode: at a bind no record of this incarnation under the pod's key names another node ('no bind retry on a "
                "different node'); (d) singleKeys at resync / API release: no pod key owns two addresses; (e) bind only: the failing "
                "apiserver call is not the UpdateAttr after a successful AssignIP (fault index 0 or the bind re-uses no address). "
                "(c), (d), (e) are NOT guaranteed by the code; all three counter histories break the real plugin (known findings "
                "rebind-other-node-without-unassign, freed-or-rekeyed-while-assigned:multi-ip-key, "
                "stored-node-lost:assign-ok-updateattr-failed; replays corpus/C10/d14.ops, d14-partial-bind.ops, "
                "multi-ip-resync.ops, multi-ip-release.ops, updateattr-fault.ops). (e) cannot be traded for a weaker theorem about "
                "call ORDER only: after AssignIP ok + UpdateAttr failed the record names no node, every side condition holds for "
                "the scheduler's retry on another node, and that retry sends AssignIP(n2) while the provider still has n1.",
     technique="Lean 4 inductive invariant over an executable model parameterised by regenerated structural facts (factgen plugin) + "
               "differential correspondence of every step (result class, observed choices, provider log per address, provider "
               "state, full digest) of the REAL FloatingIPPlugin with a recording cloud provider that fails on demand (10-15 % "
               "clean failures) against gxdrv_plugin, on histories of pods moving between three nodes of one subnet, old-pod "
               "events before / after the new pod's binding, retries, a third profile with apiserver faults (8 %), restart and "
               "pod-IP sync; monitor = the real call log replayed through the per-IP "
               "state machine + bound live pods' addresses on their node + every release / re-key preceded by an unassign + "
               "stored node = provider node; thorough: breadth-first enumeration of all states reachable within 8 moves over a "
               "14-move alphabet (1 pod identity, any incarnations, 2 nodes, provider failures)",
     factgen=["plugin"],
     drivers=["plugin"],
     trusted=["tools/factgen/cmd/plugin: syntactic extraction (statement order inside single functions, no aliasing analysis)",
              "harness/plugin + harness/pluginc07: client-go fake clientsets stand in for the API server; the recording provider "
              "applies a successful request to its table and ignores a failed one (that is the meaning of 'fails cleanly')"],
     assumptions=["the provider state is what the call log determines (provOf plog): requests reach the provider in the order the "
                  "plugin issues them and a failed request has no effect",
                  "operations on one pod name are atomic (fact: lockPod), operations on different names interleave as moves"],
     timeout={"quick": 900, "thorough": 3600},
     )
