prop("C12",
     level_text="Lean 4 theorems over the executable CNI-multiplexer model M5 (Galaxy/Model/Cni.lean), full strength on the "
                "model, for every static configuration, pod, N, plugin-outcome function, state and request sequence: "
                "selection_source + interface_names (annotation / ENI / default networks; kubelet's interface first, then the "
                "annotation's or eth<i>), add_order, add_rollback (+ add_rollback_failed_dels: rollback DELs that fail are "
                "kept for the next DEL), add_unresolvable, del_reverse, del_retry_exact, del_idempotent(_no_state), isolation "
                "(records are a function of the container's own state entry), isolation_frame, isolation_commute, "
                "isolation_sequences / isolation_contexts (all request sequences: other containers' requests can be removed), "
                "no_foreign_prev_result, prev_result_chain, args_last_wins(_step,_del) at string level (Split/SplitN/TrimRight/"
                "TrimSpace modelled on List Char); isolation_prefix_counter proves isolation FALSE for the pre-fix code "
                "(getNetworkConfReturnsCopy = false, defect D5).  Nothing is _partial.  Tied to /repo by factgen `cni` "
                "(copy-on-hand-out of getNetworkConf, save-before-invoke, consume/re-save-failures, loop direction, rollback "
                "index, setNetInterface translated to Lean, separators, JSON-detection characters, selection order — pinned by "
                "fact_* theorems; the model is parameterised by getNetworkConfReturnsCopy) and by differential correspondence "
                "of the REAL request path (pkg/galaxy handler -> resolveNetworks -> cniutil.CmdAdd/CmdDel -> exec of a "
                "recording plugin binary on CNI_PATH, real state files in /var/lib/cni/galaxy) against gxdrv_cni, plus "
                "independent monitors (order, rollback, retry-exactly-failed, idempotent DEL, interface names, args map, "
                "prevResult chain, state file, isolation by replaying each container alone, cross-container leak scan).",
     level_note="the theorems speak about requests as atomic steps (concurrency = commutation of requests for different "
                "containers; overlapping requests for the SAME container id are outside the property — kubelet serialises "
                "them); concurrent execution of the real code is exercised by the harness (goroutines), data races are C19. "
                "The JSON form of the networks annotation and args.common enter the model already decoded. "
                "Host-port mapping and policy hooks of requestFunc are C14/C15 and not part of this model.",
     technique="Lean 4 theorems over an executable model + regenerated definitions (factgen) + differential correspondence + "
               "runtime monitors on the real request path",
     factgen=["cni"],
     drivers=["cni"],
     trusted=["encoding/json decoding of the JSON-form networks annotation and of args.common (decoded by the harness with "
              "the same library into its own types and handed to the model)",
              "client-go fake clientset stands in for the API server (pod lookup)",
              "a recording Go program (harness/cni/plugin) stands in for the delegate CNI plugins; libcni's invoke package "
              "(exec, env, result decoding) is exercised, not modelled",
              "hook /repo/pkg/galaxy/verif_hooks_cni.go (build tag verif): calls the real handler without the unix socket"],
     assumptions=["WFNetConf: every configured network has a non-empty string type whose plugin binary exists on CNI_PATH "
                  "(a missing binary makes DelegateAdd/Del fail without an invocation record)",
                  "WFArgs (args_last_wins only): keys of args.common contain neither ';' nor '=', values no ';', neither has "
                  "leading/trailing blanks — true for the ipinfos JSON galaxy-ipam writes",
                  "the pod exists when the ADD arrives (getPod polls for 5 s otherwise)",
                  "plugin results carry an IPv4 address (convertResult would fail the ADD after the delegates succeeded)"],
     timeout={"quick": 600, "thorough": 3000},
     )
