prop("C16",
     level_text="PARTIAL proof. Lean 4 theorem `enforces_k8s_partial`: for ALL clusters, policy sets and flows inside the "
                "decidable fragment `inFragment` (namespaceSelector / ipBlock peers, podSelector peers only in "
                "single-namespace clusters, non-empty peer lists, numbered ports, per rule one ipBlock with strictly "
                "narrower excepts or no excepts, no pod of the node isolated in both directions, not both ends isolated "
                "on this node) the packet walk over the compiled ipsets and filter table accepts exactly what the "
                "NetworkPolicy API semantics allow (real proof by induction over the rule / peer / pod lists, no "
                "sampling). The full statement is FALSE for the code: seven deviations (a)-(g) each have a `counter_*` "
                "theorem and a replay through the real compiler; they are listed as known findings (plus the event-path "
                "`relabel-stale-membership-until-resync`). Port lists of any length are inside the fragment: the compiler "
                "splits them over rules of at most `multiportChunk` = 15 ports (regenerated from the chunk loops of "
                "writePolicyChainRules; a port matches iff it is in the union of the chunks, `portChunks_contains`); the "
                "former defect `multiport-more-than-15-ports` is fixed (8f04d5f): `counter_multiport` is about the pre-fix "
                "rendering, `multiport_fixed` about the current one, corpus/C16/m.ops is a regression that must pass and "
                "the fakes still refuse any rule with more than 15 ports (LimitIPT). The model "
                "(`compileSets`/`compileTable`) is compared with the dump of the REAL policy manager on every run, "
                "and the walk runs on the real dump. A second stream drives UPDATE transitions on a live manager over the "
                "strict fakes (ipBlock surgery, pod relabel, policies deleted down to zero, one failing ipset create) and "
                "compares the final sets / rules and every flow verdict with a from-scratch compile of the final state; "
                "in that stream the kernel state is ALSO judged right after every single event handler (before any "
                "periodic sync): all flows walked on the real dump vs a from-scratch compile of the current cluster "
                "(`event-state-denies-allowed` / `event-state-accepts-forbidden`; the stale membership UpdatePod leaves "
                "behind is known finding `relabel-stale-membership-until-resync`, theorem `counter_relabel_stale`). The generator also builds rules that share their FIRST selector peer (a crowd of 3..15 pods) "
                "and go on with different peers, in one or several policies (corpus/C16/shared-first-peer.ops).",
     level_note="model of the compiler hand-written, tied to /repo by (T) regenerated prefixes / set-name formats / rule "
                "templates / defaulting functions / shape facts (Generated/Policy.lean; template_* and fact_* theorems); the translator first brings every function into a canonical form (tools/factgen/cmd/policy/norm.go, harmless/NORMALISE.md: renamed locals, guard clauses, switch / range forms, inlined locals, helpers one level, Sprintf vs concatenation are invisible; rule word order, constants, guards and the order of side-effecting calls are not; unit tests norm_test.go) and "
                "(X) equality of the canonical dump of the real code with the model's compile output on generated "
                "clusters; ipset/iptables are fakes; hash:net lookup semantics (most specific entry decides, nomatch) "
                "transcribed from the ipset documentation / kernel source, not executed (no ipset binary in the sandbox)",
     technique="Lean 4 theorems over an executable model + regenerated definitions (factgen) + differential "
               "correspondence of the real compiler's dump + packet walk (in Lean) over the REAL dump vs two independent "
               "evaluators of the API semantics (Lean, Go)",
     factgen=["policy"],
     drivers=["policy"],
     trusted=["harness/policy: dump parser/canonicaliser, Go reference evaluator of the NetworkPolicy API semantics, "
              "semantic description of the known deviations used ONLY to classify mismatches (an unclassifiable mismatch "
              "is a VIOLATION)",
              "gxdrv_policy's parser of dump lines (checked on every case: re-rendered dump must equal the harness' canonical dump)",
              "/repo/pkg/policy/verif_hooks_policy.go (constructor over given handles/listers; build tag verif)"],
     assumptions=["name hashes (sha256/base32, 16 chars) injective on the policies / pods at hand (hypothesis of the theorem; "
                  "the harness computes them independently and compares the resulting names)",
                  "pod addresses distinct (WFCluster, Appendix E)",
                  "a flow is a NEW connection (the conntrack RELATED,ESTABLISHED rule does not match); built-in chain policy ACCEPT",
                  "iptables' multiport limit of 15 ports is modelled (Model: checkRefs / portsOK, `overLimit_false` proves no emitted rule exceeds it; harness: LimitIPT in front of the fakes); named ports, SCTP, endPort, IPv6 and /0 ipBlocks (not storable in hash:net) are outside the modelled fragment"],
     timeout={"quick": 600, "thorough": 3000},
     )
