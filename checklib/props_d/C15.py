prop("C15",
     level_text="PARTIAL proof. Proved in Lean 4 for ALL prior kernel states, clusters and policy sets: `frame_foreign` "
                "(full strength: a full sync, and every step the event handlers are composed of, leaves every non-GLX "
                "chain, every rule of FORWARD/INPUT/OUTPUT other than the documented base jumps, and every non-GLX "
                "ipset exactly as it was) and `policy_chains_exact_partial` (a policy batch that reports no failure "
                "installs exactly the compiled GLX-PLCY-* chains from ANY prior table), `pod_chain_exact_partial` (per "
                "SyncPodChains call), `ipset_entries_exact_partial` (one createIPSet step of the CURRENT source leaves "
                "exactly the compiled entries incl. options from any prior content; the pre-fix variant is "
                "`full_sync_counter_d21`, D21 fixed in /repo d42b414 and followed through the regenerated fact "
                "`createIPSetKeepsRekeyedEntries`), `no_dangling_policy_batch_partial` (syncRules can only fail as busy -X "
                "or create type clash). The full exactness / "
                "idempotence / no-dangling statements are FALSE for the code: `full_sync_exact_counter_d13`, "
                "`full_sync_counter_d17` (each replayed against the real PolicyManager over strict fakes; known "
                "findings D13, D17). End-state exactness of pod chains after the loop over the pods, idempotence of the "
                "whole state and the no-dangling clause for pod batches are NOT proved; they are monitored on the real "
                "dumps of generated histories (prior states = outputs of other cluster states + junk + foreign rules; "
                "restart / periodic resync / one event per changed object / UPDATE transitions on a live manager: "
                "option-only change of a set member, except added / removed, peer moved between cidr and except, pod "
                "relabelled, last policy deleted, one failing `ipset create` for each set position from an empty kernel "
                "and with existing chains), clause 4 judged at SUBMISSION time by inspecting every batch / command "
                "against the kernel state whether or not the fake rejects it, including the flow verdicts of the final "
                "rules vs those of a from-scratch sync.",
     level_note="the sync model (`syncRules`/`syncPods`/`fullSync` over strict primitive semantics at the level of "
                "structured rules) is hand-written; every sync step of the real code over harness/nf is compared with it "
                "starting from the REAL prior dump (post-state and failure classes must be equal); the strict iptables / "
                "ipset semantics are those of harness/nf (work package netfilter: checked against M6 and real iptables "
                "1.8.9), restated here for the rule forms galaxy emits",
     technique="Lean 4 theorems over an executable model + regenerated definitions (factgen) + differential "
               "correspondence per sync step from real prior states + monitors of the four clauses on real dumps",
     factgen=["policy"],
     drivers=["policy"],
     trusted=["harness/nf strict fakes (iptables-restore --noflush all-or-nothing, -X / destroy refuse while referenced, "
              "add -exist replaces by key)",
              "harness/policy: dump parser/canonicaliser, history interpreter, classification of inexact states "
              "(only three listed signatures are known findings; anything else is a VIOLATION)",
              "/repo/pkg/policy/verif_hooks_policy.go"],
     assumptions=["syncPods calls SyncPodChains concurrently; the model runs the pods sequentially in lister order (the "
                  "hook rules of GLX-INGRESS / GLX-EGRESS are compared as a set)",
                  "createIPSet iterates a Go map; the model iterates in compile order (sets have distinct names)",
                  "prior states never hold a GLX-named set of the wrong type (ipset create -exist would fail and abort "
                  "syncRules half way)",
                  "a rule never puts the same network into one hash:net set both as cidr and as except (such sets flip "
                  "on every sync)"],
     timeout={"quick": 600, "thorough": 3000},
     )
