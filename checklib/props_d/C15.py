prop("C15",
     level_text="Proof under explicit hypotheses + full frame clause. Proved in Lean 4 for ALL prior kernel states: "
                "`frame_foreign` (full strength, also per event-handler step); `policy_chains_exact_partial`; "
                "`no_dangling_policy_batch_partial` (syncRules can only fail as busy -X or create type clash); "
                "`ipset_entries_exact` (after syncRules of the current source every compiled set exists with the compiled type "
                "and exactly the compiled entries incl. options, stale unreferenced GLX sets destroyed; from any prior sets "
                "with one element per key; excluded: one key under two options, `ipset_entries_counter_key_clash`); "
                "`pods_loop_exact` (end state of the loop over ALL local pods = exactly the compiled pod chains and hooks, "
                "by a frame lemma per SyncPodChains call + induction over the pod list, under the hypothesis `PriorPods` "
                "= what D13 violates; `pods_loop_counter_d13`); `full_sync_exact_under_hypotheses` and "
                "`full_sync_idempotent_under_hypotheses` (whole owned state: policy chains, pod chains, hooks, ipsets; "
                "second sync reports no failure and changes nothing); `no_dangling_pod_batch` (+ "
                "`pod_batch_counter_failed_policy_sync`). The unconditional statements are FALSE for the code: "
                "`full_sync_exact_counter_d13`, `full_sync_counter_d17` (known findings D13, D17, and the cascade "
                "pod-batch-after-failed-policy-sync); D21 fixed (`full_sync_counter_d21` is about the pre-fix variant). "
                "All four clauses are also monitored on the real dumps of generated histories (restart / periodic resync "
                "/ events / UPDATE transitions / injected ipset-create failures per set position), clause 4 at "
                "submission time, including flow verdicts vs a from-scratch sync. DRIFT histories (systematic + generated): the same "
                "process syncs the same desired state twice while the kernel moved away in between with a net-zero change of "
                "the desired entries (pod label / namespace label / pod address round trips delivered as pod events, external "
                "add / del / emptying of GLX sets, junk rules in GLX-PLCY / GLX-POD chains); the second sync must repair it. "
                "Frame of every SyncPodChains / deletePodChains call: a DeleteRule on GLX-INGRESS / GLX-EGRESS that removes the "
                "jump of a pod the desired state hooks in that direction is `pod-hook-of-other-pod-removed` (theorem "
                "`delete_pod_chains_frame`, fact `fact_delete_pod_chains`); pod / namespace names are drawn so that the "
                "`name_namespace` strings contain one another (db-0_prod / db-0_prod2 / xdb-0_prod), selected and unselected.",
     level_note="the sync model (`syncRules`/`syncPods`/`fullSync` over strict primitive semantics at the level of "
                "structured rules) is hand-written; every sync step of the real code over harness/nf is compared with it "
                "starting from the REAL prior dump (post-state and failure classes must be equal); the strict iptables / "
                "ipset semantics are those of harness/nf (work package netfilter: checked against M6 and real iptables "
                "1.8.9), restated here for the rule forms galaxy emits; the regenerated facts (sync order in Run and the "
                "handlers, createIPSet guards, writeChains prefix filter, syncRules called unconditionally) are matched on "
                "the canonical form of each function (tools/factgen/cmd/policy/norm.go, harmless/NORMALISE.md), so "
                "behaviour-preserving rewrites do not break the tie",
     technique="Lean 4 theorems over an executable model + regenerated definitions (factgen) + differential "
               "correspondence per sync step from real prior states + monitors of the four clauses on real dumps",
     factgen=["policy"],
     drivers=["policy"],
     trusted=["harness/nf strict fakes (iptables-restore --noflush all-or-nothing, -X / destroy refuse while referenced, "
              "add -exist replaces by key)",
              "harness/policy: dump parser/canonicaliser, history interpreter, classification of inexact states "
              "(only three listed signatures are known findings; anything else is a VIOLATION)",
              "/repo/pkg/policy/verif_hooks_policy.go"],
     assumptions=["syncPods calls SyncPodChains concurrently; the model runs the pods sequentially in lister order (the "
                  "hook rules of GLX-INGRESS / GLX-EGRESS are compared as a set)",
                  "createIPSet iterates a Go map; the model iterates in compile order (sets have distinct names)",
                  "prior states never hold a GLX-named set of the wrong type (ipset create -exist would fail and abort "
                  "syncRules half way)",
                  "a rule never puts the same network into one hash:net set both as cidr and as except (such sets flip "
                  "on every sync)"],
     timeout={"quick": 600, "thorough": 3000},
     )
