prop("C11",
     level_text="Lean 4 proofs, for ALL strings (unbounded character lists), over the executable key/paging/API model that "
                "gxdrv_keys runs: parse_format (ParseKey inverts genKey on well-formed parts; five shape corollaries), "
                "format_injective, pod_key_decodes, podkeys_distinct (any owner kind, any pool annotation), apptype_roundtrip "
                "(+ counter for the pre-fix table), builtin_prefix_only_from_documented_kinds (sts_ / dp_ are reached only from "
                "statefulset(s) / deployment / replicaset up to case and the tables' own short words), list_entry_releases_itself / list_entry_releases_pod, "
                "omitted_apptype_means_statefulset (+ counter for the missing else), release_only_owner / "
                "release_request_only_owners, pages_partition, pages_index_unique, pagin_fields_*, parseSize_pos, parsePage_range, "
                "every_ip_reachable_iff (both directions of the 99999 page clamp), and the necessity counters "
                "pool_name_with_underscore_counter, kind_with_underscore_counter, empty_kind_counter. Nothing is _partial. "
                "The model is tied to /repo by the regenerated constants, Sprintf formats, case tables, clamp and pagination "
                "arithmetic and API wiring facts (factgen keys) and by differential runs of the real FormatKey / ParseKey / "
                "NewKeyObj / GetAppType(Prefix) / ParsePage / ParseSize / Pagination and of the real ListIPs / ReleaseIPs HTTP "
                "handlers (real plugin + crd ipam on fake clientsets) against the driver; independent monitors check the property "
                "on the handlers (every ip listed exactly once over all page/size walks, every listed entry posted back verbatim "
                "and with appType removed releases exactly its ip, one-field variants release nothing).",
     level_note="Full on the model. Known finding (D16, signature pool-name-underscore): pool names containing '_' do not decode and "
                "their list entries cannot be released; the theorems carry the hypothesis and a counter theorem shows it is needed.",
     technique="Lean 4 theorems over an executable List-Char model + regenerated definitions (factgen) + differential "
               "correspondence and monitors on the real HTTP handlers",
     factgen=["keys"],
     drivers=["keys"],
     trusted=["tools/factgen/cmd/keys: syntactic extraction (skeleton comparison of genKey/ParseKey/resolvePodKey/GetAppType*/"
              "ParsePage/ParseSize/paginationResult/pagin and of the appType default in ListIPs/ReleaseIPs)",
              "harness/keys: fake kubernetes / galaxy clientsets (client-go fakes) stand in for the apiserver; ips are allocated "
              "directly through ipam.AllocateSpecificIP with keys from the real FormatKey"],
     assumptions=["namespaces, pod names and owner names are DNS-1123 (non-empty, no '_') as the API server enforces",
                  "owner kinds are non-empty ASCII identifiers without '_' (needed for decoding and list-then-release, not for "
                  "key distinctness); strings.ToLower is modelled on ASCII",
                  "int is 64 bits (strconv.Atoi range)",
                  "sort order and uniqueness of the ip strings in the list come from the ipam (one record per ip); the model "
                  "covers the slicing arithmetic, the monitor checks the order on the real handler"],
     timeout={"quick": 600, "thorough": 3000},
     )
