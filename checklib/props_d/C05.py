prop("C05",
     level_text="Lean 4 theorems over the executable IPAM model M3 (Galaxy/Model/Ipam.lean: every crdIpam mutator as its explicit "
                "sequence of store calls + memory update, under a fault plan = any set of failing call indices and a crash plan, "
                "with explicit choice arguments where Go iterates a map; admin reservations are store writes whose watch events "
                "are delivered by separate later moves). Proved for ALL states, arguments, admissible choices and plans: "
                "agree_init; agree_preserved (one step, NO side condition: the 9 mutators incl. error returns, partially applied "
                "ReserveIP/ReleaseIPs and rollback-delete failures, admin moves, restart; a fired crash plan is followed by "
                "restart); agree_preserved_deliver; inv_preserved + inv_implies_agree + agree_reachable (history level: the "
                "inductive invariant Inv = MemOK + a per-address invariant over the pending watch events is preserved by EVERY "
                "move incl. event delivery at any later time, so Agree holds in every reachable state); restart_reconstructs; "
                "crash_restart_safe + restart_establishes_agree (structural invariant after restart from ANY state and crash "
                "point); fact_* (store-before-memory, lock modes, rollback shape, reserved-label check regenerated from /repo). "
                "Counter theorems on the pre-fix shapes selected by the regenerated facts: stale_unassign_event_counter, "
                "rollback_delete_fault_counter; admin_recreate_race_counter shows the environment assumption is needed. "
                "Pod level (second sentence of the property, plugin model M4): pod_crash_restart_resync_safe (every reachable "
                "plugin state, every move, every crash point (k API calls, j provider requests), restart + one resync: coherent "
                "tables, every live bound pod still owns each handed address, store = memory) and "
                "pod_crash_restart_resync_no_leak (records naming gone pods obey the documented release policy) restate "
                "Galaxy.Plugin.crash_restart_resync_safe / crash_restart_resync_no_orphan.",
     level_note="Full on the model. Only assumption: EnvOK — the administrator does not create a reservation for an address while "
                "a watch event for that address is still undelivered (otherwise a stale add event overwrites what IPAM wrote: "
                "counter theorem). Both defects this check found (late delete event of a re-used reserved address; ignored "
                "rollback delete error) are fixed in /repo (68e0a5a, e50aa1c); their replays are regression corpus files.",
     technique="Lean 4 theorems over an executable model + regenerated structural facts (factgen ipam) + differential "
               "correspondence of every step (result class, choices, full memory/store/pending dump) of the REAL crdIpam on a "
               "fault-injecting clientset decorator, with every fault index and crash point of every operation enumerated "
               "from the same prefix; monitor = memory (ByPrefix) vs FloatingIP list vs freshly started crdIpam; plus the "
               "pod-level crash sweep on the real scheduler plugin (plugin.RunCrashSweep: die before external call k, restart, "
               "resync, monitors, comparison with the model's crashAt)",
     factgen=["ipam", "plugin"],
     drivers=["ipam", "plugin"],
     trusted=["tools/factgen/cmd/plugin + harness/plugin: see C04 (fake clientsets, decorator, controlled listers)",
              "tools/factgen/cmd/ipam: syntactic extraction of guard/lock/rollback shapes (no aliasing analysis)",
              "harness/ipam: client-go fake CRD clientset stands in for the API server (create of an existing name fails, "
              "get/update/delete of a missing name fail); watch events of labelled objects are delivered by the harness "
              "through the handler crdIpam registered on a captured informer"],
     assumptions=["store names are canonical dotted-quad IPv4 strings; admin reservations carry key, policy and an empty attribute",
                  "EnvOK: no reservation is created for an address while a watch event for it is still on its way (generator obeys it; histories which do not are marked, not judged)",
                  "configurations passed fipCheck (ranges inside the pod subnet): freshFree_wf shows the model's extra filter is "
                  "then the identity; pools pairwise disjoint as address sets in the correspondence runs",
                  "a restarted process reloads the configuration it last loaded successfully; its fresh informer's initial add "
                  "events are no-ops (already allocated) and are not modelled",
                  "single process: operations are atomic because each holds cacheLock throughout (fact_holdsCacheLock)"],
     timeout={"quick": 600, "thorough": 3600},
     )
