prop("C05",
     level_text="Lean 4 theorems over the executable IPAM model M3 (Galaxy/Model/Ipam.lean: every crdIpam mutator as its explicit "
                "sequence of store calls + memory update, under a fault plan = any set of failing call indices and a crash plan, "
                "with explicit choice arguments where Go iterates a map). Proved for ALL states, arguments, admissible choices and "
                "plans: agree_init, agree_preserved (every move: 9 mutators, admin reserve/unreserve, event delivery, restart; "
                "error returns and partially applied ReserveIP/ReleaseIPs included; a fired crash plan is followed by restart), "
                "agree_preserved_plain (no side condition for all moves except event delivery and multi-range allocation), "
                "agree_preserved_allocRanges_single_fault, agree_reachable (induction over histories), restart_reconstructs, "
                "crash_restart_safe + restart_establishes_agree (structural invariant after restart from ANY state and crash "
                "point), fact_* (store-before-memory, lock modes, rollback shape regenerated from /repo). Counter theorems for "
                "the two places where the code leaves the property: stale_unassign_event_counter, "
                "rollback_delete_fault_counter, rollback_second_fault_counter. IPAM level only: the pod-level clause "
                "(every existing pod keeps its IP after restart + resync) is model M4's.",
     level_note="agree_preserved carries the side condition StepOK (True except: a delivered watch event must still describe "
                "the store; no fault may hit a rollback delete of AllocateInSubnetsAndIPRange). Both deviations are genuine "
                "defects reproduced on the real code by the harness and listed as known findings "
                "(stale-reserved-watch-event-desyncs-cache, rollback-delete-fault-leaks-object).",
     technique="Lean 4 theorems over an executable model + regenerated structural facts (factgen ipam) + differential "
               "correspondence of every step (result class, choices, full memory/store/pending dump) of the REAL crdIpam on a "
               "fault-injecting clientset decorator, with every fault index and crash point of every operation enumerated "
               "from the same prefix; monitor = memory (ByPrefix) vs FloatingIP list vs freshly started crdIpam",
     factgen=["ipam"],
     drivers=["ipam"],
     trusted=["tools/factgen/cmd/ipam: syntactic extraction of guard/lock/rollback shapes (no aliasing analysis)",
              "harness/ipam: client-go fake CRD clientset stands in for the API server (create of an existing name fails, "
              "get/update/delete of a missing name fail); watch events of labelled objects are delivered by the harness "
              "through the handler crdIpam registered on a captured informer"],
     assumptions=["store names are canonical dotted-quad IPv4 strings; admin reservations carry key, policy and an empty attribute",
                  "configurations passed fipCheck (ranges inside the pod subnet): freshFree_wf shows the model's extra filter is "
                  "then the identity; pools pairwise disjoint as address sets in the correspondence runs",
                  "a restarted process reloads the configuration it last loaded successfully; its fresh informer's initial add "
                  "events are no-ops (already allocated) and are not modelled",
                  "single process: operations are atomic because each holds cacheLock throughout (fact_holdsCacheLock)"],
     timeout={"quick": 600, "thorough": 3600},
     )
