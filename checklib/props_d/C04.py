prop("C04",
     level_text="Lean 4 theorems over the executable plugin model M4-core (Galaxy/Model/Plugin.lean: the galaxy-ipam scheduler "
                "plugin at operation granularity - own compact IPAM sub-model, API truth, stale informer views, pending "
                "delete/finish events carrying the pod snapshot, cloud-provider log - with 22 moves incl. the adversary moves "
                "createPod/deletePod with fresh UIDs, delayed and dropped events, listerSync, resync in any order and split "
                "into snapshot + per-record steps, apiRelease, syncPodIPs, reload, restart, preempt (getSubnet WITHOUT the "
                "pod lock), an administrator's reservation / its withdrawal, and crash plans (crashAt k j: the move dies "
                "after k apiserver calls and j provider requests, memory + caches + queued events are lost, restart); Go map nondeterminism as validated choice arguments; one failing apiserver and "
                "one failing provider call per move). Proved by an inductive invariant (11 conjuncts: store/memory coherence, "
                "ownership of handed IPs by key AND uid, no foreign-uid record under a live key, unique fresh UIDs, lister "
                "snapshots, dead events, ...) preserved by EVERY move and lifted over all finite histories: "
                "live_bound_pod_keeps_ip, no_unassign_for_live_pod, late_event_keeps_ip, fact_* "
                "(regenerated guard/lock shapes). Counter theorems: live_bound_pod_keeps_ip_counter (model without the unbind "
                "UID guard = fixed defect D2, replay corpus/C04/d2.ops), stale_lister_bind_counter, stale_record_counter and "
                "per_key_release_counter (models of the code before the three later fixes, facts false).",
     level_note="Scope of the theorems = the decidable side conditions Galaxy.Plugin.assumed, all the property's own: non-empty "
                "names, bind requests carry the pod UID, a reload keeps live pods' addresses configured. Beyond the property's "
                "quantifier the theorems also cover one failing apiserver call and one failing provider call per move at any "
                "position (a failed ConfigurePool delete leaves an orphan object, State.orphans). Three defects found by this "
                "check are fixed in /repo (stale-lister bind, bind beside a stale record, per-key resync/Release); their replays "
                "in corpus/C04 are regression histories. Also proved on this model and built by this check (restated in Props/C05 and "
                "Props/C09): Lemmas/PluginCrash.lean crash_restart_resync_safe (every reachable state, every move, every crash "
                "point, every resync order) and Lemmas/PluginReserved.lean reserved_never_in_annotation, "
                "unconfigured_never_in_annotation, reservation_kept, reservation_outlives_plugin_moves, crash_keeps_reservations; "
                "a further side condition: a Release request does not name an administrator's reservation (the HTTP handler "
                "always builds a key with an application-type prefix). A reservation and its watch event are one move (the "
                "window in between is M3's subject, C09); reservation keys are texts that do not parse as keys (the documented "
                "example `pool__reserved-for-node_` is a pool-shaped key: a pod annotated with that pool would take it, as for "
                "any pool). Scalable custom resources (TApp with a scale subresource) are the extension Model/PluginC03.lean.",
     technique="Lean 4 inductive invariant over an executable model parameterised by regenerated structural facts (factgen plugin: "
               "unbindChecksUID, bindChecksUID, bindChecksListerUID, bindUidGuardCoversWholeKey, resyncAndReleaseCheckWholeKey, release/resync re-read under lockPod, lister-then-apiserver, lockPod at six entry "
               "points) + differential correspondence of every step (result class, observed choices, full digest of memory, "
               "store, pods, events, provider) of the REAL FloatingIPPlugin built in-process on fake clientsets behind "
               "call-counting fault-injecting decorators with harness-controlled listers; monitor = the C04 statement on the "
               "real IPAM and the recording provider after every step, plus the reservation monitor (a reservation in force keeps "
               "its record and object, no live pod holds a reserved or de-configured address); crash sweep: every external "
               "call index of ~150 histories x 8 moves is a crash point (panic at the call, fresh plugin on the same fake "
               "apiserver/store, compared with the model's crashAt); lock-exclusion probe over all pairs of entry points; the fake apiserver's pods/binding answers like the real one "
               "(404 pod gone, 409 uid precondition, 409 already assigned) and a \"binding-answers\" profile generates repeated "
               "binds of bound live pods (same / other node), Binding responses that are lost after being applied followed "
               "by the scheduler's retry, and an unavailable apiserver (model: BindAnswer / BindOutcome / bindFinish, fact "
               "bindEnqueuesReleaseOnlyOnNotFound, counter theorem repeated_bind_counter, corpus repeated-bind.ops); thorough: breadth-first enumeration of all states "
               "reachable within 8 moves over a 17-move alphabet (incl. the begin of a graceful deletion) (2 pod names, any incarnations, 2 addresses)",
     lean_modules=["Galaxy.Props.C04", "Galaxy.Lemmas.PluginCrash", "Galaxy.Lemmas.PluginReserved", "Galaxy.Lemmas.PluginRanges"],
     factgen=["plugin"],
     drivers=["plugin"],
     trusted=["tools/factgen/cmd/plugin: facts are matched on a NORMALISED trace of each function (normalise.go: value numbering of locals, path conditions as conjunct sets, guard clauses = nested ifs = &&, switch = if-chain, log lines / error texts dropped, Sprintf = concatenation, private helpers followed one level) - renamings, hoisted sub-expressions, named booleans and extracted helpers do not change a fact, a dropped / moved / weakened guard does (unit tests both ways, incl. the harmless patches H05/H07 and three seeded patches); no type checking, no aliasing analysis",
              "harness/plugin: client-go fake clientsets stand in for the API server; pods/binding is implemented by the "
              "decorator (UID precondition, nodeName, annotation merge); listers are indexers the harness fills; the resync "
              "checklist order and the event delivery order are chosen by the harness through verif_hooks_plugin.go"],
     assumptions=["structured keys: that the rendered key string is injective for names without '_' is C11's theorem",
                  "pools of a configuration are pairwise disjoint as address sets with distinct gateways (generator); "
                  "operations on one pod name are atomic (fact: lockPod), operations on different names interleave as moves",
                  "a restarted process loads the configuration last applied; its informers are synced before it serves"],
     timeout={"quick": 900, "thorough": 3600},
     )
