prop("C04",
     level_text="(under construction)",
     level_note="",
     technique="Lean 4 theorems over an executable model + regenerated structural facts (factgen plugin) + differential correspondence",
     factgen=["plugin"],
     drivers=["plugin"],
     timeout={"quick": 900, "thorough": 3600},
     )
