prop("C02",
     level_text="Lean 4 theorems over the executable plugin model M4-core (Galaxy/Model/Plugin.lean, what gxdrv_plugin runs), all "
                "at full strength, each for EVERY state (hence every history of the 17 moves: re-creation with a fresh UID, "
                "delete events before / after the new pod's filter and bind, lost events, resync, restarts, stale listers), "
                "every pool / node-subnet topology, every admissible resolution of Go map order and every fault index: "
                "sticky_rebind (key owns exactly one address, or one per requested range: a successful Bind on any node writes "
                "exactly these in request order), bind_hands_only_reserved (invariant form over all move sequences: while the "
                "key owns anything a Bind hands one of the owned addresses), bind_waits_for_old_incarnation (UID-guard wait: "
                "nothing changes, no other address), delete_event_keeps_reservation (reserveIP(key,key) keeps key + policy, "
                "clears uid), filter_offers_only_routable_nodes, dp_replacement_takes_reserved (deployment / pool pod with "
                "reserving policy, app holds reserved addresses, usedCount < replicas: Filter never takes a free address; ok => "
                "exactly one reserved address re-keyed, a most recently updated one routable from the chosen subnet, only nodes "
                "of that subnet offered; failure, e.g. store update fault => no record changed, no node offered, no fall-back to a "
                "fresh allocation), dp_replacement_waits_at_quota (same pod while usedCount >= spec.replicas resp. Pool.size - the "
                "rolling-update order 'replacement filtered before the old pod's address came back': refused with the size-limit "
                "error, state unchanged), dp_replacement_bind_hands_rekeyed, 9 fact_* theorems (fact_dp_quota_is_spec_replicas: the "
                "quota is int(*dp.Spec.Replicas), nothing added); sticky_rebind_two_ips_counter documents "
                "the ipInfos[:1] subtlety (identity owning two addresses without requested ranges).",
     level_note="Nothing is _partial. Overlapping requested ranges (excluded by WFRequest) are outside sticky_rebind's second "
                "alternative only in that its hypothesis speaks about what byKeyAndRanges returns. Preempt is not modelled.",
     technique="Lean 4 step theorems that hold in every state of the executable model + regenerated expressions and structural "
               "facts (factgen c03: usedCount >= replicas, which records count as used / reserved, no fall-through in "
               "allocateDuringFilter, latest-first in AllocateInSubnetWithKey, count+allocate under LockDpPool, allocateIP "
               "reuses owned addresses) + differential correspondence of the REAL FloatingIPPlugin with gxdrv_plugin step by "
               "step (incl. observed map-order choices) + monitor: reservation set of the identity / app recorded before every "
               "real Filter and Bind, compared with offered nodes, re-keyed address (most recently updated in the chosen "
               "subnet), free list and binding annotation; histories re-create the same identities over all workload kinds "
               "with late / lost events (replacement pod filtered before the old pod's delete event), workload objects completed "
               "the way an apiserver defaults them (update strategy RollingUpdate 25%/25%, absolute maxSurge 1..3, 100%, Recreate; "
               "selector, template, revisionHistoryLimit, progressDeadlineSeconds, status; harness/pluginc03/defaults.go), quota gate "
               "(usedCount >= spec.replicas / Pool.size => filter must refuse), store faults during filter, policy annotation flipping never <-> immutable, topologies "
               "with >= 2 node subnets; thorough: breadth-first enumeration of all move sequences <= 6 over one statefulset "
               "and one deployment identity on two pools / two node subnets",
     factgen=["plugin", "c03"],
     drivers=["plugin"],
     trusted=["tools/factgen/cmd/c03 and cmd/plugin: syntactic extraction on single functions",
              "harness/plugin (work package plugin): fake clientsets behind call-counting decorators, harness-filled listers",
              "UpdatedAt is compared only as an order (monitor) / as the model's logical clock"],
     assumptions=["structured keys (C11); operations on one pod name are atomic (fact: lockPod); count and allocation of one "
                  "deployment / pool during filter are atomic (fact: LockDpPool scope)",
                  "the scheduler binds on a node Filter offered, with the UID of the pod it filtered"],
     timeout={"quick": 900, "thorough": 3600},
     )
