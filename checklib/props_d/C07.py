prop("C07",
     level_text="Lean 4 theorems over the executable plugin model M4-core + M4-C07 (Galaxy/Model/PluginC07.lean: the pool API "
                "POST /v1/pool = CreateOrUpdate + preAllocateIP as move `apiPool`; Filter cut between count and allocation "
                "(`decide7` / `applyDecision`, proved equal to the core getSubnet); an INTERLEAVING model `cstep` in which Filter and "
                "pre-allocation are two-phase actions (take the pool lock + count | allocate + unlock) under a lock table keyed by "
                "the regenerated lock-key STRINGS of the two call sites, with any other move allowed between the phases: EVERY "
                "move of the plugin model - filters, Preempt (same getSubnet, same lock), pool requests, binds, event delivery, "
                "both resync forms, API release, the pod-IP sync pass, administrator reservations, configuration reload, process "
                "restart, API truth and lister changes, one failing apiserver and one failing provider call per move). Proved: "
                "pool_count_le_size_seen (Filter that read size z: cnt' <= max cnt z, for any population of the pool), "
                "filter_leaves_other_pools, prealloc_count_le_size, bind_does_not_grow_when_filter_allocated, "
                "other_moves_do_not_grow, reachable_invariant + pool_never_exceeds_size_partial (the bound for EVERY step after "
                "EVERY interleaving), unsized_bind_has_no_pool_object, second_counter_waits (mutual exclusion through the common "
                "lock string), model ties filter7_is_core_filter / getSubnet_is_count_then_allocate, "
                "filter_that_saw_pool_makes_bind_ok, ten fact_* theorems (lock before count and held across the allocation on "
                "both sides, SAME lock string on both sides as a theorem about regenerated key functions, server wiring, "
                "counting rule, >=, allocate-during-filter condition). Counter theorems on the model: "
                "pool_never_exceeds_size_counter (DESIGN D15), sync_pass_counter (pod-IP sync pass).",
     level_note="_partial: side condition `callowed`, on five moves only - (a) bind: the pod already owns an address for every "
                "request (bindOK: what a Filter that saw the Pool object leaves behind) OR its pool is not a sized pool at that "
                "moment (no Pool object of that name, nobody counting for it; such a step is reported as unsizedBind instead of "
                "bounded - the property speaks of sized pools); (b) syncPodIPs / markTerminating (UpdatePod's syncPodIP): the pass re-creates no pool record (syncOK / termOK); "
                "(c) reload: new pools have a node subnet and no store object orphaned by an earlier reload belongs to a pool; "
                "restart: no such orphan. (a) and (b) are NOT guaranteed by the code: a pod filtered while the Pool object was not "
                "visible is bound without looking at the size (replay corpus/C07/d15.ops, known finding "
                "bind-after-unsized-filter-exceeds-size), and syncPodIP re-creates the released record of a Running pod of a stale "
                "lister without looking at the size (replay corpus/C07/syncpodip.ops, known finding pool-exceeds-size:syncips). "
                "Pools of the initial configuration have a node subnet (WFPools; the real decoder rejects a pool without). "
                "Pods of other workload kinds carrying a pool annotation count as members but never go through the sized branch "
                "and always allocate at bind: the property text speaks of 'pods of the deployments that share the pool', so they "
                "are OUTSIDE the property (covered by (a) only while the pool is unsized; the harness monitor skips their binds).",
     technique="Lean 4 inductive invariant over a two-phase interleaving model parameterised by regenerated structural facts (factgen "
               "c07) + differential correspondence of the REAL FloatingIPPlugin and the REAL PoolController handlers (httptest, wired "
               "like pkg/ipam/server) with the model (driver extension Galaxy/Drv/PluginC07.lean executed by the Lean interpreter; "
               "the lakefile has no executable for it) on generated histories of <= 3 deployments x <= 4 pods sharing a sized pool, "
               "sizes 0-4, pool create/update with and without pre-allocation, store faults, API release, pod-IP sync, restart, reload, "
               "a statefulset pod with pool annotation in 10 % of the histories; monitor after every step; REAL "
               "concurrency: forced two-goroutine schedules (one side parked between count and allocation by an IPAM decorator, the "
               "other side must block) and free-running races of 12 filters + 3 pre-allocating pool requests",
     factgen=["plugin", "c07"],
     drivers=["plugin"],
     lean_modules=["Galaxy.Props.C07", "Galaxy.Drv.PluginC07"],
     trusted=["tools/factgen/cmd/c07 and cmd/plugin: syntactic extraction (statement order inside single functions, lock-key "
              "expressions translated from fmt.Sprintf / NewKeyObj argument mapping, no aliasing analysis)",
              "harness/plugin + harness/pluginc07: client-go fake clientsets stand in for the API server; listers are indexers the "
              "harness fills; the pool controller is constructed by the harness with the wiring factgen checks in server.go; "
              "pkg/ipam/schedulerplugin/verif_hooks_c07.go (build tag verif) lets the harness wrap the plugin's IPAM for parking",
              "harness/pluginc07/run7.lean: the C07 driver extension runs in the Lean interpreter on the compiled modules"],
     assumptions=["operations on one pod name are atomic (fact: lockPod); the keyed mutex LockDpPool excludes holders of equal strings",
                  "the size a Filter reads is the one in its Pool lister (read before the lock is taken; the bound is stated against it)",
                  "structured keys: rendered key strings are injective for names without '_' (C11)"],
     timeout={"quick": 900, "thorough": 3600},
     )
