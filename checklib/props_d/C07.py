prop("C07",
     level_text="Lean 4 theorems over the executable plugin model M4-core + M4-C07 (Galaxy/Model/PluginC07.lean: the pool API "
                "POST /v1/pool = CreateOrUpdate + preAllocateIP as move `apiPool`; Filter cut between count and allocation "
                "(`decide7` / `applyDecision`, proved equal to the core getSubnet); an INTERLEAVING model `cstep` in which Filter and "
                "pre-allocation are two-phase actions (take the pool lock + count | allocate + unlock) under a lock table keyed by "
                "the regenerated lock-key STRINGS of the two call sites, with any other move - other filters, pool requests, "
                "binds, unbinds, resync, API release, API truth and lister changes - allowed between the phases). Proved: "
                "pool_count_le_size_seen (Filter that read size z: cnt' <= max cnt z, for any population of the pool), "
                "filter_leaves_other_pools, prealloc_count_le_size, bind_does_not_grow_when_filter_allocated, "
                "reachable_invariant + pool_never_exceeds_size_partial (the bound for EVERY step after EVERY interleaving), "
                "second_counter_waits (mutual exclusion through the common lock string), model ties filter7_is_core_filter / "
                "getSubnet_is_count_then_allocate, ten fact_* theorems (lock before count and held across the allocation on "
                "both sides, SAME lock string on both sides as a theorem about regenerated key functions, server wiring, "
                "counting rule, >=, allocate-during-filter condition). pool_never_exceeds_size_counter: DESIGN D15 on the model.",
     level_note="_partial: side condition `callowed` - (a) reload / restart / pod-IP sync are outside the move set (the property "
                "quantifies over filter, bind and pool-update requests); (b) at every bind of a pod with a pool annotation the pod "
                "already owns an address for every request (bindOK), i.e. the preceding Filter allocated it. (b) is NOT guaranteed "
                "by the code: a pod filtered before the Pool object existed is bound without looking at the size (counter theorem; "
                "replay corpus/C07/d15.ops breaks the real code; known finding bind-after-unsized-filter-exceeds-size). Pools of "
                "the configuration have a node subnet (WFPools; the real decoder rejects a pool without). The property speaks "
                "about deployments: pods of other workload kinds carrying a pool annotation are bound without size check and are "
                "excluded by (b) as well.",
     technique="Lean 4 inductive invariant over a two-phase interleaving model parameterised by regenerated structural facts (factgen "
               "c07) + differential correspondence of the REAL FloatingIPPlugin and the REAL PoolController handlers (httptest, wired "
               "like pkg/ipam/server) with the model (driver extension Galaxy/Drv/PluginC07.lean executed by the Lean interpreter; "
               "the lakefile has no executable for it) on generated histories of <= 3 deployments x <= 4 pods sharing a sized pool, "
               "sizes 0-4, pool create/update with and without pre-allocation, store faults; monitor after every step; REAL "
               "concurrency: forced two-goroutine schedules (one side parked between count and allocation by an IPAM decorator, the "
               "other side must block) and free-running races of 12 filters + 3 pre-allocating pool requests",
     factgen=["plugin", "c07"],
     drivers=["plugin"],
     lean_modules=["Galaxy.Props.C07", "Galaxy.Drv.PluginC07"],
     trusted=["tools/factgen/cmd/c07 and cmd/plugin: syntactic extraction (statement order inside single functions, lock-key "
              "expressions translated from fmt.Sprintf / NewKeyObj argument mapping, no aliasing analysis)",
              "harness/plugin + harness/pluginc07: client-go fake clientsets stand in for the API server; listers are indexers the "
              "harness fills; the pool controller is constructed by the harness with the wiring factgen checks in server.go; "
              "pkg/ipam/schedulerplugin/verif_hooks_c07.go (build tag verif) lets the harness wrap the plugin's IPAM for parking",
              "harness/pluginc07/run7.lean: the C07 driver extension runs in the Lean interpreter on the compiled modules"],
     assumptions=["operations on one pod name are atomic (fact: lockPod); the keyed mutex LockDpPool excludes holders of equal strings",
                  "the size a Filter reads is the one in its Pool lister (read before the lock is taken; the bound is stated against it)",
                  "structured keys: rendered key strings are injective for names without '_' (C11)"],
     timeout={"quick": 900, "thorough": 3600},
     )
