prop("C17",
     level_text="Lean 4 theorems over the executable GC model (Galaxy/Model/Gc.lean), full strength on the model: "
                "cleanup_only_dead / cleanup_every_dead (shouldCleanup = true exactly for docker not-found, exited, dead, gRPC "
                "NotFound, sandbox not-ready with pod gone or no waiting/running container), never_on_runtime_error, never_running, "
                "outcomes_classified, one_round_removes_all_dead (+ _state_files with the port-clean callbacks): one sweep removes "
                "every dead container's file and no other entry, second sweep idle; dead_removed_despite_erroring_entries (the bound holds under "
                "partial persistent inspect failures, wherever the failing entries sort and in whichever directory); "
                "interleaved_sweep_removes_only_judged_dead / reassigned_to_running_survives (environment moves landing during inspect "
                "calls: a removed file holds, when removed, what was read in the same iteration and its owner was judged dead); "
                "later_round_judges_current_state (whatever rounds ran before under whatever answers, a round keeps every entry "
                "whose owner is not dead NOW - the harness runs a third round on the same collector with the dead containers "
                "running again); outage_keeps_everything; rounds_bound (1 round "
                "per directory list); port_mappings_of_dead_cleaned. Tied to /repo by factgen `gc` (state strings, the decision "
                "table of shouldCleanup as the condition paths of every `return true`, shouldCleanupFailsSafe, collector shape) and "
                "by differential correspondence of the real flannelGC single-pass entry points against gxdrv_gc, docker branch "
                "(fake docker HTTP endpoint) and containerd branch (fake CRI gRPC endpoint + fake API server).",
     level_note="file removals are assumed to succeed; the runtime's answer per container id is constant during one round; "
                "cleanupVeth (netlink) is out of scope; IPv6-text file names are classified by Go's net.ParseIP (flag on the op line); "
                "failures of the port-clean callback are outside the property's fault model (see "
                "callback_failure_orphans_port_mapping_counter).",
     technique="Lean 4 theorems over an executable model + regenerated definitions (factgen) + differential correspondence + "
               "runtime monitor written from the property statement",
     factgen=["gc"],
     drivers=["gc"],
     trusted=["a scripted HTTP endpoint stands in for the docker engine, a scripted gRPC endpoint for containerd's CRI, "
              "client-go's fake clientset for the API server",
              "net.ParseIP (Go standard library) for IPv6-text names; os.ReadDir / os.Remove semantics of the host file system"],
     assumptions=["file removals succeed (os.Remove errors are only logged by the code; a failed removal is retried by the next round)",
                  "the runtime answers the same for a container id during one round"],
     timeout={"quick": 600, "thorough": 3000},
     )
