prop("C20",
     level_text="Machine-checked Lean 4 proofs, at full strength for ALL inputs, on an executable model of the decoder "
                "(Galaxy.Model.Nets / Galaxy.Model.Pool) whose integer code is regenerated from /repo on every run: "
                "accepted_wf, accepted_conf_wf, size_eq_card (+ size_eq_card_mod, size_wraps_counter for 0.0.0.0/0), "
                "contains_iff_enumerate, range_contains_size, walk_visits_exactly, walk_all, roundtrip_ip / _range / _cidr / "
                "_pool, reject_changes_nothing (+ reject_reported, accept_configures), fipcheck_nowrap; _counter theorems "
                "document the fixed defects D1 (walk32_diverges_counter) and D8 (fipcheck_wrap_counter, "
                "accepted_wf_old_counter); editing an accepted pool (FloatingIPPool.InsertIP / tryMerge / RemoveIP, model "
                "Galaxy.RangeEdit): accepted_canon, insert_exact, remove_exact (canonical form kept, membership changes by "
                "exactly the one address), insert_refuses_iff, remove_refuses_iff, insert_remove_roundtrip, "
                "edit_outside_subnet_refused, insert_noncanon_counter; a reload whose ConfigurePool fails: "
                "store_failure_changes_nothing, store_failure_retried, store_ok_is_ensureConf; fact_* theorems pin operators, widths, constants, json field table and the "
                "guards of UnmarshalJSON / MarshalJSON / ensureIPAMConf.  No _partial theorem.  The model is tied to the "
                "code by factgen (proofs break when an operator / width / constant changes) and by a differential "
                "correspondence + independent monitors on the real decoder, encoder, range functions, walk and reload.",
     level_note="The model starts from the JSON document lowered field by field (RawPool): JSON syntax, key matching and "
                "string escapes are encoding/json's and are covered by the correspondence (lowering written in the "
                "harness, checked on every case), not by proof.  Text domain of the model is dotted-quad IPv4; IPv6 "
                "literals which the real decoder accepts (v4-mapped forms, IPv6 node subnets) are checked by the "
                "monitors only.  ensureIPAMConf is modelled with ConfigurePool as one step that succeeds or fails as a "
                "whole (ensureConfStore; the harness injects a failing store list); what ConfigurePool does inside is M3's "
                "business.  InsertIP's call tryMerge(i-1) is transcribed as a no-op (argument in Model/RangeEdit.lean, checked "
                "by the correspondence on arbitrary, also unsorted, lists).",
     technique="Lean 4 theorems over an executable model + regenerated definitions (factgen nets: BitVec 32/64 code of "
               "IPRange.Size/Contains, SparseSubnet.Size, ParseIPRange order check, fipCheck adjacency incl. width, "
               "walkIPRanges loop, Minus, Less, separator) + differential correspondence against gxdrv_nets + monitors; "
               "exhaustive small scope over 8-address windows at both ends of the address space",
     factgen=["nets"],
     drivers=["nets"],
     trusted=["encoding/json and net.ParseIP/ParseCIDR of the Go standard library (observed through the correspondence only)",
              "harness/nets/lower.go: lowering of a JSON document to the model's RawPool fields"],
     assumptions=["pod subnets other than 0.0.0.0/0 for size = cardinality (the property's own quantifier; "
                  "size_wraps_counter shows the hypothesis is necessary)",
                  "configurations whose pools hold more than 65536 addresses are decoded and monitored but not fed to "
                  "ConfigurePool (it enumerates every address into a map)"],
     timeout={"quick": 600, "thorough": 3000},
     )
