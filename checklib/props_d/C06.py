prop("C06",
     level_text="Lean 4 theorems over the executable plugin model M4-core (Galaxy/Model/Plugin.lean, the functions gxdrv_plugin runs), "
                "for ALL topologies, allocation states, node sets, pool objects, workload kinds, policies and requests that satisfy "
                "the decidable well-formedness predicate WF (every pool well formed, pools pairwise disjoint, node subnets pairwise "
                "identical or disjoint, requested range lists pairwise disjoint, names without '_') in any state with coherent IPAM "
                "memory/store and a truthful node-subnet cache: filter_then_bind_succeeds (every resolution of Bind's map-order "
                "choices answers ok, 'waiting for delete event' or is inadmissible, and an admissible one exists - fresh pods with "
                "0..k ranges, pods holding all/some/none of their ranges' addresses, reserved statefulset addresses, deployment "
                "pods with reserve-during-filter and sized pools), bound_ip_routable, ipinfo_from_pool, "
                "holder_offered_only_routable, fresh_pod_offered_iff_free_ip (an IFF, in the property's wording 'a pool listing a "
                "subnet that contains the node's address'), partial_holder_offered_iff (the same exactness for default-policy pods "
                "holding some of their ranges), fact_* / model_* (regenerated source shapes = the model's leaf functions). "
                "state_hypotheses_hold_after_history / *_after_history: Coherent and CacheOK hold in every state reached by histories "
                "of API truth changes, lister syncs, Filter, Bind and configuration RELOADS (a reload that goes through empties the "
                "node-subnet cache, fact reloadClearsNodeSubnetCache), so the theorems apply after reloads that change node subnets; "
                "stale_cache_after_reload_counter = what fails if the cache survived a reload. "
                "incoherent_store_counter: the hypothesis Coherent (store = memory, C05 / first conjunct of the plugin invariant) is "
                "necessary - a store object for an address the cache lists as free makes every bind on the approved node fail. "
                "Counter theorems with concrete witnesses: bound_ip_routable_counter (hypothesis AtMostOneWithoutRanges is "
                "necessary as the code stands; reproduces on the real code = fixed since: ByKeyAndIPRanges(key,nil) sorted), filter_then_bind_overlap_counter "
                "(overlapping ranges = the documented TODO of ipam_crd.go, outside the property's quantifier), d7_reseed_counter "
                "(pre-fix seeding of NodeSubnetsByIPRanges = fixed defect D7), alloc_gives_up_counter, owned_seed_index_counter, "
                "ipinfo_first_pool_counter (what each pinned fact protects). Seven non-vacuity examples on a topology with two pools "
                "sharing a pod subnet with adjacent ranges, node subnets shared by pools and a /32 node subnet.",
     level_note="bound_ip_routable and holder_offered_only_routable carry the extra hypothesis AtMostOneWithoutRanges because the "
                "plugin model admits any address of the key as ipInfos[0]/ipInfos[:1]; bound_ip_is_lowest_held, "
                "bound_ip_routable_sorted and holder_offered_only_routable_sorted drop it under the admissibility refinement "
                "choiceIsMin justified by the regenerated fact byKeyNoRangesSorted (ByKeyAndIPRanges(key,nil) sorts ascending); the "
                "harness reports any observed first-address choice that is not the key's lowest address as a correspondence "
                "disagreement and a bind that writes another address as bound-ip-not-lowest-held. The state hypotheses (Coherent = C05 / the C04 invariant's first "
                "conjunct; CacheOK = the node-subnet cache holds nodeSubnet(node)) are assumed for the starting state, checked by "
                "the harness on every generated state through the correspondence. 'Nothing else changes' = fault arguments 0, lister "
                "pod = API pod, scheduler UID = pod UID. Scalable custom resources (immutable policy for TApp) and Preempt are not "
                "modelled.",
     technique="Lean 4 step lemmas over the executable model (case analysis of getSubnet into five outcomes, success lemmas for "
               "AllocateInSubnet*/AllocateInSubnetsAndIPRange/UpdateAttr/binding under 'no fault', set-membership characterisation of "
               "NodeSubnetsByIPRanges) + regenerated structural facts (factgen c06: seeding conditions, pick condition and walk "
               "continuation, allocate-only-unfound, ipinfo from fip.pool) with fact-parameterised leaf variants + differential "
               "correspondence of every history (results, observed choices, full digests) of the REAL FloatingIPPlugin with "
               "gxdrv_plugin + 30% of the cases insert warm-up Filter -> reload through the real updateConfigMap path (node subnet "
               "widened / narrowed / moved to another pool / removed) before the target, judged against the NEW configuration "
               "(signatures get the suffix :after-reload) + 30% of the topologies contain pools WITHOUT addresses (before / between / after the others in gateway order); reloads "
               "also change gateway / mask / vlan of pools that hold allocated addresses which the target then REUSES "
               "+ 20% of the cases put ONE injected apiserver fault into the PREFIX history (failing Create of the 2nd+ address of a "
               "multi-range bind, failing Get/Update of filter's re-key, failing Delete of a release, reload with a failing Delete), "
               "the judged filter -> bind stay fault-free (signatures get the suffix :after-fault) "
               "+ monitor of the five statements on real outputs: real Filter, then real Bind on EVERY approved node "
               "(fresh world per node, same deterministic prefix) and on a rejected candidate; thorough: all allocation states of "
               "a 2-pool x 3-address topology x all requests of <= 3 disjoint range lists out of a menu of 6 x 3 nodes",
     factgen=["plugin", "c06"],
     drivers=["plugin"],
     trusted=["tools/factgen/cmd/c06: syntactic extraction (printed conditions and statement shapes of single functions)",
              "harness/plugin: client-go fake clientsets stand in for the API server; pods/binding is implemented by the decorator; "
              "listers are indexers the harness fills",
              "harness/pluginc06/monitor.go: routability and exactness are computed from the pool configuration text and the IPAM "
              "dump (ByPrefix(\"\")) of the real plugin before the filter"],
     assumptions=["node addresses do not change while cached (the plugin caches nodeSubnet per node name until the next reload)",
                  "the requested ranges are the pod's annotation at filter and bind time (the lister shows the API server's pod)",
                  "allocation states are those reachable by real operations (other pods' binds, earlier incarnations bound and "
                  "reserved, pending delete events, deployment reservations)"],
     timeout={"quick": 600, "thorough": 2400},
     )
