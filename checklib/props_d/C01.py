prop("C01",
     level_text="Lean 4 theorems over the executable plugin model M4-core (same model, reachability notion and invariant as C04): "
                "unique_owner (one record per address in memory and in the store, unallocated addresses have no record, "
                "store = memory pointwise, for every reachable state), no_shared_ip_between_live_pods (two live bound "
                "pods with a common address are the same pod - corollary of the C04 ownership invariant and "
                "key_injective_on_pod_identity), handed_ip_is_not_free, fact_*. Counter theorem no_shared_ip_counter "
                "(model without the unbind UID guard: D2 two moves later, replay corpus/C01/d2-shared.ops).",
     level_note="Full strength within the property's scope (Galaxy.Plugin.assumed: non-empty names, bind requests carry the pod "
                "UID, reloads keep live pods' addresses configured - otherwise operator error: an address removed while in use "
                "and added again is handed out again; theorem and monitor exempt it), for every fault position of every move. "
                "State.store = objects of configured addresses, State.orphans = objects whose delete failed during a reload. "
                "The defects found earlier (consequences of the C04 ones) are fixed; their replays are regression histories. A pod inside its deletion grace period (deletionTimestamp set, object still there) is a live pod: model flag Pod.terminating, move markTerminating (the update event goes through UpdatePod, then syncPodIP), fact finishedChecksPhaseOnly, counter theorem terminating_pod_counter, corpus graceful-deletion.ops; the harness generates graceful deletions (pod term ... pod delete) with everything else going on in between.",
     technique="Lean 4 inductive invariant over an executable model + regenerated structural facts (factgen plugin) + differential "
               "correspondence with the REAL FloatingIPPlugin (see C04); monitor = no address in the binding annotation of two "
               "live pods, IPAM dump lists every address once, FloatingIP objects and memory agree on key/uid/node/policy; "
               "the C04 oracle runs silently to attribute a shared address to its root cause",
     lean_modules=["Galaxy.Props.C01", "Galaxy.Lemmas.PluginCrash", "Galaxy.Lemmas.PluginReserved"],
     factgen=["plugin"],
     drivers=["plugin"],
     trusted=["tools/factgen/cmd/plugin: facts matched on normalised traces (see C04; no type checking, no aliasing analysis)", "harness/plugin: fake clientsets, decorator, controlled listers (see C04)"],
     assumptions=["structured keys: injectivity of the rendered key string is C11's theorem",
                  "pools pairwise disjoint with distinct gateways; per-pod operations atomic (fact: lockPod)"],
     timeout={"quick": 900, "thorough": 3600},
     )
