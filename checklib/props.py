"""
Registry of claimed properties: which Lean modules carry the obligations, what
is trusted, what the level text says.  MANIFEST.json is generated from this
file by tools/mkmanifest.py, so the two cannot drift.
"""

PROPS = {}


def prop(pid, **kw):
    kw.setdefault("lean_modules", ["Galaxy.Props." + pid])
    kw.setdefault("trusted", [])
    kw.setdefault("assumptions", [])
    PROPS[pid] = kw


def get(pid):
    return PROPS.get(pid)


# properties not (yet) claimed, with the reason that goes to MANIFEST.not_applicable
NOT_CLAIMED = {
    "C%02d" % i: "check under construction in this round: the Lean model, theorems and correspondence harness for "
                 "this property are not committed yet (see DESIGN.md §6 for the plan); nothing is claimed until they are"
    for i in range(1, 21)
}

# ---- claimed properties: one file per property in checklib/props_d/Cxx.py, each calling prop("Cxx", ...) ----
def _load():
    import glob
    import os
    here = os.path.dirname(os.path.abspath(__file__))
    for f in sorted(glob.glob(os.path.join(here, "props_d", "C*.py"))):
        exec(compile(open(f).read(), f, "exec"), {"prop": prop})


_load()
